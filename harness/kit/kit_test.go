package kit

import (
	"math/big"
	"math/rand"
	"testing"
)

func bigCmpProducts(a, b, c, d int64) int {
	l := new(big.Int).Mul(big.NewInt(a), big.NewInt(b))
	r := new(big.Int).Mul(big.NewInt(c), big.NewInt(d))
	return l.Cmp(r)
}

var hostile = []int64{0, 1, -1, 2, -2, 1 << 26, (1 << 26) + 1, 1 << 31, (1 << 31) - 1, -(1 << 31), 1 << 32, (1 << 53) + 1, 1 << 61, -(1 << 61), (1 << 62) - 1, -(1 << 62), 3037000500, -3037000499, 1<<63 - 1, -1 << 63}

func TestCmpProductsAgainstBig(t *testing.T) {
	r := rand.New(rand.NewSource(1))
	pick := func() int64 {
		switch r.Intn(4) {
		case 0:
			return hostile[r.Intn(len(hostile))]
		case 1:
			return r.Int63n(1<<20) - 1<<19
		case 2:
			return r.Int63() - r.Int63()
		default:
			return hostile[r.Intn(len(hostile))] + r.Int63n(5) - 2
		}
	}
	for i := 0; i < 400000; i++ {
		a, b, c, d := pick(), pick(), pick(), pick()
		if r.Intn(3) == 0 { // force equal products often
			c, d = b, a
		}
		if got, want := CmpProducts(a, b, c, d), bigCmpProducts(a, b, c, d); got != want {
			t.Fatalf("CmpProducts(%d,%d,%d,%d)=%d want %d", a, b, c, d, got, want)
		}
	}
}

// windBig: independent winding number via a vertical ray and big.Int arithmetic.
func windBig(p Path, q P) (w int, on bool) {
	n := len(p)
	for i := 0; i < n; i++ {
		a, b := p[i], p[(i+1)%n]
		if a == b {
			if a == q {
				on = true
			}
			continue
		}
		// cross = (b-a) x (q-a)
		cr := new(big.Int).Sub(
			new(big.Int).Mul(big.NewInt(b.X-a.X), big.NewInt(q.Y-a.Y)),
			new(big.Int).Mul(big.NewInt(b.Y-a.Y), big.NewInt(q.X-a.X)))
		s := cr.Sign()
		if s == 0 && between(a.X, b.X, q.X) && between(a.Y, b.Y, q.Y) {
			on = true
		}
		// ray towards +Y from q: count edges crossing x = q.X, half-open in X
		if a.X <= q.X && b.X > q.X { // moving right: q is left of a->b (above... ) when s>0
			if s < 0 { // q is to the right of a->b i.e. below the edge => ray upward crosses it
				w--
			}
		} else if b.X <= q.X && a.X > q.X {
			if s > 0 {
				w++
			}
		}
	}
	return w, on
}

func TestWindAgainstVerticalRay(t *testing.T) {
	r := rand.New(rand.NewSource(2))
	for i := 0; i < 60000; i++ {
		R := []int64{5, 20, 1000, 1 << 29, 1 << 61}[r.Intn(5)]
		n := 3 + r.Intn(9)
		p := make(Path, n)
		for j := range p {
			p[j] = P{r.Int63n(2*R+1) - R, r.Int63n(2*R+1) - R}
		}
		for k := 0; k < 20; k++ {
			q := P{r.Int63n(2*R+1) - R, r.Int63n(2*R+1) - R}
			if k < 5 {
				q = p[r.Intn(n)]
				q.X += r.Int63n(3) - 1
			}
			w1, on1 := WindPath(p, q)
			w2, on2 := windBig(p, q)
			if on1 != on2 {
				t.Fatalf("on-edge disagrees for %v %v: %v %v", p, q, on1, on2)
			}
			if !on1 && w1 != w2 {
				t.Fatalf("winding disagrees for %v %v: %d vs %d", p, q, w1, w2)
			}
		}
	}
}

func TestWindKnown(t *testing.T) {
	sq := Path{{0, 0}, {10, 0}, {10, 10}, {0, 10}} // counter-clockwise with Y up
	if w, on := WindPath(sq, P{5, 5}); w != 1 || on {
		t.Fatalf("ccw square: %d %v", w, on)
	}
	if Area2(sq).Int64() != 200 || Area2Lib(sq).Int64() != 200 {
		t.Fatalf("area2 %v %v", Area2(sq), Area2Lib(sq))
	}
	if w, on := WindPath(sq, P{10, 5}); !on || w != 0 && w != 1 {
		t.Fatalf("edge: %d %v", w, on)
	}
	if w, _ := WindPath(sq, P{11, 5}); w != 0 {
		t.Fatalf("outside: %d", w)
	}
	rev := Path{{0, 10}, {10, 10}, {10, 0}, {0, 0}}
	if w, _ := WindPath(rev, P{5, 5}); w != -1 {
		t.Fatalf("cw square: %d", w)
	}
}

func TestAreaConventionsAgree(t *testing.T) {
	r := rand.New(rand.NewSource(3))
	for i := 0; i < 20000; i++ {
		n := 3 + r.Intn(8)
		p := make(Path, n)
		for j := range p {
			p[j] = P{r.Int63n(1<<30) - 1<<29, r.Int63n(1<<30) - 1<<29}
		}
		if Area2(p).Cmp(Area2Lib(p)) != 0 {
			t.Fatalf("area conventions differ for %v", p)
		}
	}
}

func TestDistSeg(t *testing.T) {
	if d := DistSeg(P{0, 5}, P{-10, 0}, P{10, 0}); d != 5 {
		t.Fatal(d)
	}
	if d := DistSeg(P{13, 4}, P{-10, 0}, P{10, 0}); d != 5 {
		t.Fatal(d)
	}
	if !FarFrom(P{0, 5}, Paths{{{-10, 0}, {10, 0}, {0, -10}}}, true, 4.9) || FarFrom(P{0, 5}, Paths{{{-10, 0}, {10, 0}, {0, -10}}}, true, 5.0) {
		t.Fatal("FarFrom")
	}
	r := rand.New(rand.NewSource(4))
	for i := 0; i < 100000; i++ {
		p := Path{{r.Int63n(200) - 100, r.Int63n(200) - 100}, {r.Int63n(200) - 100, r.Int63n(200) - 100}, {r.Int63n(200) - 100, r.Int63n(200) - 100}}
		q := P{r.Int63n(200) - 100, r.Int63n(200) - 100}
		lim := float64(r.Intn(50))
		if FarFrom(q, Paths{p}, true, lim) != (MinDist(q, Paths{p}, true) > lim) {
			t.Fatalf("FarFrom/MinDist disagree %v %v %v", p, q, lim)
		}
	}
}
