// Package kit is the trusted oracle base of the verification harness: exact integer
// geometry that never goes through the library under test.
package kit

import (
	"math"
	"math/big"
	"math/bits"

	c2 "github.com/bolom009/go-clipper2"
)

type P = c2.Point64
type Path = c2.Path64
type Paths = c2.Paths64

const lim31 = int64(1) << 31

func small(v int64) bool { return v < lim31 && v > -lim31 }

// mul128 returns the signed 128-bit product a*b as (hi, lo) two's complement.
func mul128(a, b int64) (hi int64, lo uint64) {
	neg := (a < 0) != (b < 0)
	ua, ub := absU(a), absU(b)
	h, l := bits.Mul64(ua, ub)
	if neg {
		// two's complement negate
		l = ^l + 1
		h = ^h
		if l == 0 {
			h++
		}
	}
	return int64(h), l
}

func absU(a int64) uint64 {
	if a < 0 {
		return uint64(-a) // correct also for MinInt64 (wraps to 2^63)
	}
	return uint64(a)
}

// cmp128 compares two signed 128-bit numbers.
func cmp128(h1 int64, l1 uint64, h2 int64, l2 uint64) int {
	if h1 != h2 {
		if h1 < h2 {
			return -1
		}
		return 1
	}
	if l1 != l2 {
		if l1 < l2 {
			return -1
		}
		return 1
	}
	return 0
}

// CmpProducts returns the sign of a*b - c*d, exactly, for any int64 operands.
func CmpProducts(a, b, c, d int64) int {
	if small(a) && small(b) && small(c) && small(d) {
		l, r := a*b, c*d
		switch {
		case l > r:
			return 1
		case l < r:
			return -1
		}
		return 0
	}
	h1, l1 := mul128(a, b)
	h2, l2 := mul128(c, d)
	return cmp128(h1, l1, h2, l2)
}

// CrossSign returns the sign of (b-a) x (q-a), exactly, provided the coordinate
// differences fit in int64 (|coordinates| <= 2^62).
func CrossSign(a, b, q P) int {
	return CmpProducts(b.X-a.X, q.Y-a.Y, b.Y-a.Y, q.X-a.X)
}

// CrossBig is the exact cross product (b-a) x (c-b) (the library's CrossProduct convention).
func CrossBig(a, b, c P) *big.Int {
	l := new(big.Int).Mul(big.NewInt(b.X-a.X), big.NewInt(c.Y-b.Y))
	r := new(big.Int).Mul(big.NewInt(b.Y-a.Y), big.NewInt(c.X-b.X))
	return l.Sub(l, r)
}

func between(a, b, v int64) bool {
	if a > b {
		a, b = b, a
	}
	return a <= v && v <= b
}

// OnSegment reports whether q lies on the closed segment ab (exact).
func OnSegment(a, b, q P) bool {
	if a == b {
		return a == q
	}
	return CrossSign(a, b, q) == 0 && between(a.X, b.X, q.X) && between(a.Y, b.Y, q.Y)
}

// Wind returns the exact winding number of the closed paths about q (counter-clockwise
// in a Y-up frame counts +1, which is the sign convention of the library's Area64) and
// whether q lies on an edge of the paths.
func Wind(paths Paths, q P) (w int, on bool) {
	for _, p := range paths {
		ww, o := WindPath(p, q)
		if o {
			on = true
		}
		w += ww
	}
	return w, on
}

func WindPath(p Path, q P) (w int, on bool) {
	n := len(p)
	if n == 0 {
		return 0, false
	}
	if n == 1 {
		return 0, p[0] == q
	}
	for i := 0; i < n; i++ {
		a, b := p[i], p[(i+1)%n]
		if a == b {
			if a == q {
				on = true
			}
			continue
		}
		s := CrossSign(a, b, q)
		if s == 0 && between(a.X, b.X, q.X) && between(a.Y, b.Y, q.Y) {
			on = true
		}
		if a.Y <= q.Y {
			if b.Y > q.Y && s > 0 {
				w++
			}
		} else if b.Y <= q.Y && s < 0 {
			w--
		}
	}
	return w, on
}

// DistSeg is the float64 distance from q to the segment ab.
func DistSeg(q, a, b P) float64 {
	px, py := float64(q.X-a.X), float64(q.Y-a.Y)
	dx, dy := float64(b.X-a.X), float64(b.Y-a.Y)
	l2 := dx*dx + dy*dy
	if l2 == 0 {
		return math.Hypot(px, py)
	}
	t := (px*dx + py*dy) / l2
	if t <= 0 {
		return math.Hypot(px, py)
	}
	if t >= 1 {
		return math.Hypot(float64(q.X-b.X), float64(q.Y-b.Y))
	}
	return math.Abs(px*dy-py*dx) / math.Sqrt(l2)
}

// DistSegF is DistSeg for a float query point.
func DistSegF(qx, qy float64, a, b P) float64 {
	px, py := qx-float64(a.X), qy-float64(a.Y)
	dx, dy := float64(b.X-a.X), float64(b.Y-a.Y)
	l2 := dx*dx + dy*dy
	if l2 == 0 {
		return math.Hypot(px, py)
	}
	t := (px*dx + py*dy) / l2
	if t <= 0 {
		return math.Hypot(px, py)
	}
	if t >= 1 {
		return math.Hypot(qx-float64(b.X), qy-float64(b.Y))
	}
	return math.Abs(px*dy-py*dx) / math.Sqrt(l2)
}

// MinDist is the distance from q to the nearest edge of the paths (closing edge
// included when closed). Paths with one point count as that point. +Inf if no points.
func MinDist(q P, paths Paths, closed bool) float64 {
	d := math.Inf(1)
	for _, p := range paths {
		d = math.Min(d, MinDistPath(q, p, closed))
	}
	return d
}

func MinDistPath(q P, p Path, closed bool) float64 {
	d := math.Inf(1)
	n := len(p)
	if n == 0 {
		return d
	}
	if n == 1 {
		return DistSeg(q, p[0], p[0])
	}
	m := n
	if !closed {
		m = n - 1
	}
	for i := 0; i < m; i++ {
		if v := DistSeg(q, p[i], p[(i+1)%n]); v < d {
			d = v
		}
	}
	return d
}

// FarFrom reports whether q is more than lim away from every edge (early exit).
func FarFrom(q P, paths Paths, closed bool, lim float64) bool {
	for _, p := range paths {
		n := len(p)
		if n == 0 {
			continue
		}
		if n == 1 {
			if DistSeg(q, p[0], p[0]) <= lim {
				return false
			}
			continue
		}
		m := n
		if !closed {
			m = n - 1
		}
		for i := 0; i < m; i++ {
			a, b := p[i], p[(i+1)%n]
			// cheap bounding-box rejection
			lo, hi := a.X, b.X
			if lo > hi {
				lo, hi = hi, lo
			}
			if float64(q.X) < float64(lo)-lim-1 || float64(q.X) > float64(hi)+lim+1 {
				continue
			}
			lo, hi = a.Y, b.Y
			if lo > hi {
				lo, hi = hi, lo
			}
			if float64(q.Y) < float64(lo)-lim-1 || float64(q.Y) > float64(hi)+lim+1 {
				continue
			}
			if DistSeg(q, a, b) <= lim {
				return false
			}
		}
	}
	return true
}

// Area2 is the exact doubled signed area (positive = counter-clockwise, Y up).
func Area2(p Path) *big.Int {
	s := new(big.Int)
	n := len(p)
	if n < 3 {
		return s
	}
	var t, u big.Int
	for i := 0; i < n; i++ {
		a, b := p[i], p[(i+1)%n]
		t.Mul(big.NewInt(a.X), big.NewInt(b.Y))
		u.Mul(big.NewInt(b.X), big.NewInt(a.Y))
		s.Add(s, t.Sub(&t, &u))
	}
	return s
}

// Area2Lib is the exact doubled area in the *library's* sign convention
// (Area64 = sum (prev.Y+pt.Y)*(prev.X-pt.X) / 2), which equals Area2 for all paths.
func Area2Lib(p Path) *big.Int {
	s := new(big.Int)
	n := len(p)
	if n < 3 {
		return s
	}
	prev := p[n-1]
	var t big.Int
	for _, pt := range p {
		t.Mul(new(big.Int).Add(big.NewInt(prev.Y), big.NewInt(pt.Y)), new(big.Int).Sub(big.NewInt(prev.X), big.NewInt(pt.X)))
		s.Add(s, &t)
		prev = pt
	}
	return s
}

func Area2Sum(ps Paths) *big.Int {
	s := new(big.Int)
	for _, p := range ps {
		s.Add(s, Area2(p))
	}
	return s
}

func BigToFloat(b *big.Int) float64 {
	f, _ := new(big.Float).SetInt(b).Float64()
	return f
}

func Fill(rule c2.FillRule, w int) bool {
	switch rule {
	case c2.EvenOdd:
		return w&1 != 0
	case c2.NonZero:
		return w != 0
	case c2.Positive:
		return w > 0
	default:
		return w < 0
	}
}

func BoolOp(ct c2.ClipType, s, c bool) bool {
	switch ct {
	case c2.Intersection:
		return s && c
	case c2.Union:
		return s || c
	case c2.Difference:
		return s && !c
	case c2.Xor:
		return s != c
	}
	return false
}

// PerimeterF is the total edge length of closed paths (float).
func PerimeterF(ps Paths) float64 {
	l := 0.0
	for _, p := range ps {
		n := len(p)
		if n < 2 {
			continue
		}
		for i := 0; i < n; i++ {
			a, b := p[i], p[(i+1)%n]
			l += math.Hypot(float64(b.X-a.X), float64(b.Y-a.Y))
		}
	}
	return l
}

// SegsProperlyCross reports whether open segments ab and cd cross at a single interior point.
func SegsProperlyCross(a, b, c, d P) bool {
	s1, s2 := CrossSign(a, b, c), CrossSign(a, b, d)
	s3, s4 := CrossSign(c, d, a), CrossSign(c, d, b)
	return s1*s2 < 0 && s3*s4 < 0
}

// SegsTouch reports whether closed segments ab and cd share at least one point.
func SegsTouch(a, b, c, d P) bool {
	s1, s2 := CrossSign(a, b, c), CrossSign(a, b, d)
	s3, s4 := CrossSign(c, d, a), CrossSign(c, d, b)
	if s1*s2 < 0 && s3*s4 < 0 {
		return true
	}
	return OnSegment(a, b, c) || OnSegment(a, b, d) || OnSegment(c, d, a) || OnSegment(c, d, b)
}

// Bounds returns min/max; ok=false when there are no points.
func Bounds(ps Paths) (minX, minY, maxX, maxY int64, ok bool) {
	minX, minY = math.MaxInt64, math.MaxInt64
	maxX, maxY = math.MinInt64, math.MinInt64
	for _, p := range ps {
		for _, v := range p {
			ok = true
			minX, maxX = min(minX, v.X), max(maxX, v.X)
			minY, maxY = min(minY, v.Y), max(maxY, v.Y)
		}
	}
	return
}

// ClonePaths deep-copies (nil stays nil, empty stays empty-non-nil).
func ClonePaths(ps Paths) Paths {
	if ps == nil {
		return nil
	}
	r := make(Paths, len(ps))
	for i, p := range ps {
		if p != nil {
			r[i] = append(make(Path, 0, len(p)), p...)
		}
	}
	return r
}

func PathsEqual(a, b Paths) bool {
	if len(a) != len(b) {
		return false
	}
	for i := range a {
		if len(a[i]) != len(b[i]) {
			return false
		}
		for j := range a[i] {
			if a[i][j] != b[i][j] {
				return false
			}
		}
	}
	return true
}

// Canon rotates a closed path so that it starts at its lexicographically smallest vertex.
func Canon(p Path) Path {
	n := len(p)
	if n == 0 {
		return Path{}
	}
	k := 0
	for i := 1; i < n; i++ {
		if p[i].X < p[k].X || (p[i].X == p[k].X && p[i].Y < p[k].Y) {
			k = i
		}
	}
	r := make(Path, 0, n)
	r = append(r, p[k:]...)
	r = append(r, p[:k]...)
	return r
}

// WindOpen is the signed crossing number of the horizontal ray from q with the open
// polyline p (no closing edge). For closed paths use WindPath. on reports q on the trace.
// Like the winding number it is invariant under removal of a vertex that is exactly
// collinear with its two neighbours (also for 180-degree spikes).
func WindOpen(p Path, q P) (w int, on bool) {
	n := len(p)
	if n == 1 {
		return 0, p[0] == q
	}
	for i := 0; i+1 < n; i++ {
		a, b := p[i], p[i+1]
		if a == b {
			if a == q {
				on = true
			}
			continue
		}
		s := CrossSign(a, b, q)
		if s == 0 && between(a.X, b.X, q.X) && between(a.Y, b.Y, q.Y) {
			on = true
		}
		if a.Y <= q.Y {
			if b.Y > q.Y && s > 0 {
				w++
			}
		} else if b.Y <= q.Y && s < 0 {
			w--
		}
	}
	return w, on
}
