package kit

import (
	"encoding/binary"
	"encoding/json"
	"hash/fnv"
	"os"
	"sort"
	"sync"
)

// Stats collects what a run actually explored. One instance per test process.
type Stats struct {
	mu          sync.Mutex
	Property    string            `json:"property"`
	Evaluations int64             `json:"evaluations"`
	Nontrivial  int64             `json:"nontrivial_total"`
	Labels      map[string]int64  `json:"labels"`
	Counters    map[string]int64  `json:"counters"`
	Samples     []json.RawMessage `json:"samples"`
	hashes      map[uint64]struct{}
	maxSamples  int
}

func NewStats(prop string) *Stats {
	return &Stats{Property: prop, Labels: map[string]int64{}, Counters: map[string]int64{}, hashes: map[uint64]struct{}{}, maxSamples: 6}
}

// Hash is an FNV-1a hash of the JSON form of a case.
func Hash(v any) uint64 {
	b, _ := json.Marshal(v)
	h := fnv.New64a()
	h.Write(b)
	return h.Sum64()
}

// Eval records one evaluated case.
func (s *Stats) Eval(c any, nontrivial bool, labels ...string) {
	s.mu.Lock()
	defer s.mu.Unlock()
	s.Evaluations++
	for _, l := range labels {
		if l != "" {
			s.Labels[l]++
		}
	}
	if !nontrivial {
		return
	}
	s.Nontrivial++
	h := Hash(c)
	if _, ok := s.hashes[h]; ok {
		return
	}
	s.hashes[h] = struct{}{}
	// keep a few spread-out samples: the first ones, then every 2^k-th distinct case
	n := len(s.hashes)
	if len(s.Samples) < s.maxSamples || (n&(n-1)) == 0 {
		b, _ := json.Marshal(c)
		if len(b) < 4000 {
			if len(s.Samples) < s.maxSamples {
				s.Samples = append(s.Samples, b)
			} else {
				s.Samples[n%s.maxSamples] = b
			}
		}
	}
}

func (s *Stats) Count(name string, n int64) {
	s.mu.Lock()
	s.Counters[name] += n
	s.mu.Unlock()
}

func (s *Stats) Label(name string) {
	s.mu.Lock()
	s.Labels[name]++
	s.mu.Unlock()
}

// Flush writes <base>.json (the counters) and <base>.hashes (distinct non-trivial case hashes).
func (s *Stats) Flush(base string) error {
	s.mu.Lock()
	defer s.mu.Unlock()
	b, err := json.Marshal(s)
	if err != nil {
		return err
	}
	if err := os.WriteFile(base+".json", b, 0o644); err != nil {
		return err
	}
	hs := make([]uint64, 0, len(s.hashes))
	for h := range s.hashes {
		hs = append(hs, h)
	}
	sort.Slice(hs, func(i, j int) bool { return hs[i] < hs[j] })
	buf := make([]byte, 8*len(hs))
	for i, h := range hs {
		binary.LittleEndian.PutUint64(buf[8*i:], h)
	}
	return os.WriteFile(base+".hashes", buf, 0o644)
}
