package kit

import (
	"math"
)

// ProbeOpt tunes probe generation.
type ProbeOpt struct {
	Closed   bool    // treat paths as closed (closing edge included)
	Max      int     // cap on the number of probes (0 = 6000)
	Extra    []P     // additional points (e.g. drawn by the generator)
	NoVertex bool    // skip vertex neighbourhoods
	Scale    float64 // multiply the fixed unit offsets (default 1)
}

// Probes returns distinct integer sample points placed where faces of the arrangement
// of the given paths are: around vertices, beside edges, around pairwise edge
// intersections and at centroids of consecutive vertex triples. Deterministic.
func Probes(sets []Paths, opt ProbeOpt) []P {
	maxN := opt.Max
	if maxN == 0 {
		maxN = 6000
	}
	sc := opt.Scale
	if sc == 0 {
		sc = 1
	}
	seen := make(map[P]struct{}, 1024)
	out := make([]P, 0, 1024)
	add := func(x, y float64) {
		if len(out) >= maxN || math.IsNaN(x) || math.IsNaN(y) || math.Abs(x) > 4e18 || math.Abs(y) > 4e18 {
			return
		}
		p := P{X: int64(math.Round(x)), Y: int64(math.Round(y))}
		if _, ok := seen[p]; !ok {
			seen[p] = struct{}{}
			out = append(out, p)
		}
	}
	for _, e := range opt.Extra {
		add(float64(e.X), float64(e.Y))
	}

	type seg struct{ a, b P }
	var segs []seg
	var all Paths
	for _, s := range sets {
		all = append(all, s...)
	}
	minX, minY, maxX, maxY, ok := Bounds(all)
	if !ok {
		return out
	}
	ext := math.Max(float64(maxX-minX), float64(maxY-minY))
	for _, p := range all {
		n := len(p)
		if n == 0 {
			continue
		}
		m := n
		if !opt.Closed {
			m = n - 1
		}
		if n == 1 {
			m = 0
		}
		for i := 0; i < m; i++ {
			a, b := p[i], p[(i+1)%n]
			if a != b {
				segs = append(segs, seg{a, b})
			}
		}
	}

	unit := []float64{3 * sc, 5 * sc, 9 * sc, 17 * sc, 33 * sc}
	frac := []float64{ext / 64, ext / 16, ext / 5}
	dirs := [8][2]float64{{1, 0}, {1, 1}, {0, 1}, {-1, 1}, {-1, 0}, {-1, -1}, {0, -1}, {1, -1}}

	// pairwise intersections first: these are the small faces that matter most
	if len(segs) <= 400 {
		for i := 0; i < len(segs); i++ {
			for j := i + 1; j < len(segs); j++ {
				s, t := segs[i], segs[j]
				d1x, d1y := float64(s.b.X-s.a.X), float64(s.b.Y-s.a.Y)
				d2x, d2y := float64(t.b.X-t.a.X), float64(t.b.Y-t.a.Y)
				den := d1x*d2y - d1y*d2x
				if den == 0 {
					continue
				}
				wx, wy := float64(t.a.X-s.a.X), float64(t.a.Y-s.a.Y)
				u := (wx*d2y - wy*d2x) / den
				v := (wx*d1y - wy*d1x) / den
				if u < -0.01 || u > 1.01 || v < -0.01 || v > 1.01 {
					continue
				}
				ix, iy := float64(s.a.X)+u*d1x, float64(s.a.Y)+u*d1y
				// along the four bisector directions of the two lines
				l1, l2 := math.Hypot(d1x, d1y), math.Hypot(d2x, d2y)
				b1x, b1y := d1x/l1+d2x/l2, d1y/l1+d2y/l2
				b2x, b2y := d1x/l1-d2x/l2, d1y/l1-d2y/l2
				for _, o := range []float64{4 * sc, 12 * sc} {
					for _, bb := range [][2]float64{{b1x, b1y}, {b2x, b2y}} {
						h := math.Hypot(bb[0], bb[1])
						if h < 1e-9 {
							continue
						}
						// scale so that the probe is ~o away from both lines
						k := o / h * 2
						add(ix+bb[0]*k, iy+bb[1]*k)
						add(ix-bb[0]*k, iy-bb[1]*k)
					}
				}
			}
		}
	}

	for _, p := range all {
		n := len(p)
		for i := 0; i < n; i++ {
			a := p[i]
			if !opt.NoVertex {
				for _, o := range unit {
					for _, d := range dirs {
						add(float64(a.X)+d[0]*o, float64(a.Y)+d[1]*o)
					}
				}
				for _, o := range frac {
					if o < 40*sc {
						continue
					}
					for _, d := range dirs {
						add(float64(a.X)+d[0]*o, float64(a.Y)+d[1]*o)
					}
				}
			}
			if n >= 3 {
				b, c := p[(i+1)%n], p[(i+2)%n]
				add((float64(a.X)+float64(b.X)+float64(c.X))/3, (float64(a.Y)+float64(b.Y)+float64(c.Y))/3)
			}
		}
	}
	for _, s := range segs {
		dx, dy := float64(s.b.X-s.a.X), float64(s.b.Y-s.a.Y)
		l := math.Hypot(dx, dy)
		nx, ny := dy/l, -dx/l
		for _, t := range []float64{0.5, 0.25, 0.75, 0.1, 0.9} {
			mx, my := float64(s.a.X)+t*dx, float64(s.a.Y)+t*dy
			for _, o := range []float64{3 * sc, 7 * sc, 19 * sc, ext / 40} {
				if o < 2.5*sc {
					continue
				}
				add(mx+nx*o, my+ny*o)
				add(mx-nx*o, my-ny*o)
			}
		}
	}
	return out
}
