package kit

import "math"

// NearDegenerate evaluates the input-class predicate of the listed finding
// "class:near-degenerate": the (closed or open) paths contain
//
//	(a) a vertex that lies within tol of, but not exactly on, an edge it is not an
//	    end point of, or
//	(b) two edges crossing properly at a non-integer point p while a third edge or a
//	    vertex (other than the crossing edges' own end points when they are p's
//	    nearest points) passes within tol of p.
//
// An edge that is an identical copy (same two end points) of one of the crossing edges is
// not a "third edge". Exact coincidences (shared vertices, a vertex exactly on an edge, collinear overlaps,
// several edges through one integer point) do NOT satisfy the predicate.
// The second result names the reason for statistics.
func NearDegenerate(sets []Paths, closed bool, tol float64) (bool, string) {
	type seg struct{ a, b P }
	var segs []seg
	var verts []P
	seenV := map[P]struct{}{}
	for _, ps := range sets {
		for _, p := range ps {
			n := len(p)
			for _, v := range p {
				if _, ok := seenV[v]; !ok {
					seenV[v] = struct{}{}
					verts = append(verts, v)
				}
			}
			if n < 2 {
				continue
			}
			m := n
			if !closed {
				m = n - 1
			}
			for i := 0; i < m; i++ {
				a, b := p[i], p[(i+1)%n]
				if a != b {
					segs = append(segs, seg{a, b})
				}
			}
		}
	}
	if len(segs) > 20000 {
		return false, "" // not classified (no generator produces inputs this large)
	}
	for _, v := range verts {
		for _, s := range segs {
			if v == s.a || v == s.b {
				continue
			}
			// quick reject
			if float64(v.X) < float64(min(s.a.X, s.b.X))-tol || float64(v.X) > float64(max(s.a.X, s.b.X))+tol ||
				float64(v.Y) < float64(min(s.a.Y, s.b.Y))-tol || float64(v.Y) > float64(max(s.a.Y, s.b.Y))+tol {
				continue
			}
			if DistSeg(v, s.a, s.b) <= tol && !OnSegment(s.a, s.b, v) {
				return true, "vertex-near-edge"
			}
		}
	}
	for i := 0; i < len(segs); i++ {
		for j := i + 1; j < len(segs); j++ {
			s, t := segs[i], segs[j]
			if max(s.a.X, s.b.X) < min(t.a.X, t.b.X) || max(t.a.X, t.b.X) < min(s.a.X, s.b.X) ||
				max(s.a.Y, s.b.Y) < min(t.a.Y, t.b.Y) || max(t.a.Y, t.b.Y) < min(s.a.Y, s.b.Y) {
				continue
			}
			if !SegsProperlyCross(s.a, s.b, t.a, t.b) {
				continue
			}
			d1x, d1y := float64(s.b.X-s.a.X), float64(s.b.Y-s.a.Y)
			d2x, d2y := float64(t.b.X-t.a.X), float64(t.b.Y-t.a.Y)
			den := d1x*d2y - d1y*d2x
			if den == 0 {
				continue
			}
			wx, wy := float64(t.a.X-s.a.X), float64(t.a.Y-s.a.Y)
			u := (wx*d2y - wy*d2x) / den
			px, py := float64(s.a.X)+u*d1x, float64(s.a.Y)+u*d1y
			if px == math.Round(px) && py == math.Round(py) {
				// integer crossing point (exactness re-checked with integers)
				ip := P{X: int64(px), Y: int64(py)}
				if OnSegment(s.a, s.b, ip) && OnSegment(t.a, t.b, ip) {
					continue
				}
			}
			for k, o := range segs {
				if k == i || k == j || sameSeg(o.a, o.b, s.a, s.b) || sameSeg(o.a, o.b, t.a, t.b) {
					continue // an identical copy of a crossing edge crosses at the identical point
				}
				if px < float64(min(o.a.X, o.b.X))-tol || px > float64(max(o.a.X, o.b.X))+tol ||
					py < float64(min(o.a.Y, o.b.Y))-tol || py > float64(max(o.a.Y, o.b.Y))+tol {
					continue
				}
				if DistSegF(px, py, o.a, o.b) <= tol {
					return true, "three-edges-near-a-point"
				}
			}
		}
	}
	return false, ""
}

func sameSeg(a, b, c, d P) bool { return (a == c && b == d) || (a == d && b == c) }
