package props

import (
	"fmt"
	"testing"

	c2 "github.com/bolom009/go-clipper2"
	"pgregory.net/rapid"

	"verifharness/kit"
)

// C12Action is one step of an engine history.
type C12Action struct {
	Kind  string      `json:"kind"` // add | exec | execOC | execTree | execOffset
	Paths Paths       `json:"paths,omitempty"`
	PT    uint8       `json:"pt"`   // 0 subject, 1 clip
	Open  bool        `json:"open"` // open subject
	CT    c2.ClipType `json:"ct"`
	FR    c2.FillRule `json:"fr"`
	Sol   string      `json:"sol"` // fresh | junk | previous | spare | inputs
	Delta float64     `json:"delta"`
	JT    c2.JoinType `json:"jt"`
	ET    c2.EndType  `json:"et"`
}

// C12Case: an engine kind and a history of AddPaths / Execute calls, or a single API call
// whose caller-owned inputs must stay untouched.
type C12Case struct {
	Engine  string      `json:"engine"` // 64 | D | offset | apicall
	Prec    int         `json:"prec"`
	Fam     Family      `json:"fam"`
	Actions []C12Action `json:"actions"`
	Call    *APICall    `json:"call,omitempty"`
}

func drawC12(t *rapid.T) *C12Case {
	c := &C12Case{Engine: rapid.SampledFrom([]string{"64", "64", "D", "offset", "apicall"}).Draw(t, "engine")}
	if c.Engine == "apicall" {
		c.Call = drawAPICall(t)
		return c
	}
	c.Prec = rapid.SampledFrom([]int{2, 0, 1, -1}).Draw(t, "prec")
	c.Fam = drawFamily(t)
	if c.Engine == "D" && c.Fam.R > 1000000 {
		c.Fam = Family{Kind: "g1", R: 1000000, Spread: true}
	}
	n := rapid.IntRange(2, 8).Draw(t, "nActions")
	hasPaths := false
	for i := 0; i < n; i++ {
		a := C12Action{}
		k := rapid.IntRange(0, 9).Draw(t, "actKind")
		if !hasPaths || k <= 3 {
			a.Kind = "add"
			a.Paths = drawClosedPaths(t, c.Fam, 1, 2, "paths")
			a.PT = uint8(rapid.IntRange(0, 1).Draw(t, "pt"))
			if c.Engine != "offset" && a.PT == 0 && rapid.IntRange(0, 4).Draw(t, "open") == 0 {
				a.Open = true
			}
			a.JT = rapid.SampledFrom([]c2.JoinType{c2.Miter, c2.Square, c2.Bevel, c2.Round}).Draw(t, "jt")
			a.ET = rapid.SampledFrom([]c2.EndType{c2.Polygon, c2.Polygon, c2.Joined, c2.Butt, c2.RoundET}).Draw(t, "et")
			hasPaths = true
		} else {
			if c.Engine == "offset" {
				a.Kind = "execOffset"
				a.Delta = rapid.SampledFrom([]float64{0.3, 1, -1, 5, -5, 40, -40, 1000}).Draw(t, "delta")
			} else {
				a.Kind = rapid.SampledFrom([]string{"exec", "exec", "execOC", "execTree"}).Draw(t, "execKind")
			}
			a.CT = drawClipTypeAny(t, "ct")
			a.FR = rapid.SampledFrom(allFillRules).Draw(t, "fr")
			a.Sol = rapid.SampledFrom([]string{"fresh", "junk", "previous", "spare", "inputs"}).Draw(t, "sol")
		}
		c.Actions = append(c.Actions, a)
	}
	// make sure the history ends with an execute
	last := C12Action{Kind: "exec", CT: drawClipTypeAny(t, "lastCT"), FR: rapid.SampledFrom(allFillRules).Draw(t, "lastFR"), Sol: "junk", Delta: 3}
	if c.Engine == "offset" {
		last.Kind = "execOffset"
	}
	c.Actions = append(c.Actions, last)
	return c
}

// drawClipTypeAny: the four operations, and now and then NoClip or a value outside the enum
// (both documented to "do nothing and succeed"; seeded change C12-E hid stale output behind them).
func drawClipTypeAny(t *rapid.T, label string) c2.ClipType {
	if rapid.IntRange(0, 6).Draw(t, label+"Odd") == 0 {
		return rapid.SampledFrom([]c2.ClipType{c2.NoClip, c2.NoClip, c2.ClipType(5), c2.ClipType(255)}).Draw(t, label+"Val")
	}
	return rapid.SampledFrom(allClipTypes).Draw(t, label)
}

// engineUnderTest wraps the three engine kinds behind the history's operations.
type engineUnderTest struct {
	kind string
	prec int
	// the paths handed to the latest AddPaths call: the "inputs" solution argument shares
	// their point buffers (paths := ...; AddPaths(paths); Execute(..., &paths))
	lastIn64    Paths
	lastInD     c2.PathsD
	lastInDSnap string
	e64  interface {
		AddPaths(Paths, c2.PathType, bool)
		Execute(c2.ClipType, c2.FillRule, *Paths) bool
		ExecuteOC(c2.ClipType, c2.FillRule, *Paths, *Paths) bool
		ExecutePolyTree64(c2.ClipType, c2.FillRule, *c2.PolyTree64, *c2.PathsD) bool
	}
	eD interface {
		AddPaths(c2.PathsD, c2.PathType, bool)
		Execute(c2.ClipType, c2.FillRule, *c2.PathsD) bool
		ExecuteOC(c2.ClipType, c2.FillRule, *c2.PathsD, *c2.PathsD) bool
		ExecutePolyTreeD(c2.ClipType, c2.FillRule, *c2.PolyTreeD, *c2.PathsD) bool
	}
	off *c2.ClipperOffset
}

func newEngine(kind string, prec int) *engineUnderTest {
	e := &engineUnderTest{kind: kind, prec: prec}
	switch kind {
	case "64":
		e.e64 = c2.NewClipper64()
	case "D":
		e.eD = c2.NewClipperD(prec)
	default:
		e.off = c2.NewClipperOffset(2, 0, false, false)
	}
	return e
}

func (e *engineUnderTest) div() float64 {
	d := 1.0
	for i := 0; i < e.prec; i++ {
		d *= 10
	}
	for i := 0; i > e.prec; i-- {
		d /= 10
	}
	return d
}

func (e *engineUnderTest) add(a C12Action) {
	e.lastIn64 = a.Paths
	switch e.kind {
	case "64":
		e.e64.AddPaths(a.Paths, c2.PathType(a.PT), a.Open)
	case "D":
		in := pathsToD(a.Paths, e.div())
		e.lastInD, e.lastInDSnap = in, fmt.Sprint(in)
		e.eD.AddPaths(in, c2.PathType(a.PT), a.Open)
	default:
		e.off.AddPaths(a.Paths, a.JT, a.ET)
	}
}

// outcome is the observable result of an execute.
type outcome struct {
	ok     bool
	closed Paths // closed solution (tree polygons for a tree execute), integer frame
	open   Paths
	tree   string // tree shape + polygons ("" for flat executes)
	extra  string // scale of a D tree
}

func (o outcome) String() string {
	return fmt.Sprintf("ok=%v closed=%v open=%v tree=%s %s", o.ok, o.closed, o.open, o.tree, o.extra)
}

// junkPolygons are what a "dirty" solution argument holds: real polygons far away from
// every generated input, so that appending instead of replacing changes the region.
func junkPolygons() Paths {
	const far = maxC - 1000
	return Paths{{{X: far, Y: far}, {X: far + 500, Y: far}, {X: far, Y: far + 500}}, {{X: -far, Y: far}, {X: -far + 300, Y: far}, {X: -far, Y: far + 300}}}
}

func (e *engineUnderTest) exec(a C12Action, prev64 *Paths, prevD *c2.PathsD) outcome {
	div := e.div()
	junk64 := func() Paths {
		switch a.Sol {
		case "junk":
			return junkPolygons()
		case "previous":
			return *prev64
		case "spare":
			s := make(Paths, 2, 64)
			copy(s, junkPolygons())
			return s
		case "inputs": // own header array (the caller's headers may be replaced), shared point buffers
			s := make(Paths, len(e.lastIn64), len(e.lastIn64)+4)
			copy(s, e.lastIn64)
			return s
		}
		return Paths{}
	}
	junkD := func() c2.PathsD {
		switch a.Sol {
		case "junk":
			return pathsToD(junkPolygons(), div)
		case "previous":
			return *prevD
		case "spare":
			s := make(c2.PathsD, 2, 64)
			copy(s, pathsToD(junkPolygons(), div))
			return s
		case "inputs":
			s := make(c2.PathsD, len(e.lastInD), len(e.lastInD)+4)
			copy(s, e.lastInD)
			return s
		}
		return c2.PathsD{}
	}
	switch e.kind {
	case "64":
		switch a.Kind {
		case "execOC":
			cl, op := junk64(), kit.ClonePaths(junk64())
			ok := e.e64.ExecuteOC(a.CT, a.FR, &cl, &op)
			*prev64 = cl
			return outcome{ok: ok, closed: cl, open: op}
		case "execTree":
			tr := c2.NewPolyTree64()
			if a.Sol != "fresh" { // (the reference execution of a fresh engine gets a clean tree)
				tr.AddChild(junkPolygons()[0]) // junk child that must be replaced
			}
			op := junkD()
			ok := e.e64.ExecutePolyTree64(a.CT, a.FR, tr, &op)
			return outcome{ok: ok, closed: treePolygons(tr.PolyPathBase), open: pathsFromD(op, 1), tree: treeFingerprint(tr.PolyPathBase)}
		default:
			sol := junk64()
			ok := e.e64.Execute(a.CT, a.FR, &sol)
			*prev64 = sol
			return outcome{ok: ok, closed: sol}
		}
	case "D":
		switch a.Kind {
		case "execOC":
			cl, op := junkD(), append(c2.PathsD{}, junkD()...)
			ok := e.eD.ExecuteOC(a.CT, a.FR, &cl, &op)
			*prevD = cl
			return outcome{ok: ok, closed: pathsFromD(cl, div), open: pathsFromD(op, div)}
		case "execTree":
			tr := c2.NewPolyTreeD()
			if a.Sol != "fresh" {
				tr.AddChild(junkPolygons()[0])
			}
			op := junkD()
			ok := e.eD.ExecutePolyTreeD(a.CT, a.FR, tr, &op)
			return outcome{ok: ok, closed: treePolygons(tr.PolyPathBase), open: pathsFromD(op, div), tree: treeFingerprint(tr.PolyPathBase), extra: fmt.Sprintf("scale=%v", tr.Scale())}
		default:
			sol := junkD()
			ok := e.eD.Execute(a.CT, a.FR, &sol)
			*prevD = sol
			return outcome{ok: ok, closed: pathsFromD(sol, div)}
		}
	default:
		sol := junk64()
		e.off.Execute64(a.Delta, &sol)
		*prev64 = sol
		return outcome{ok: true, closed: sol}
	}
}

// sameRegion compares two outcomes at region level (path order, start vertices and
// collinear vertices may differ when ties between local minima were broken differently).
func sameRegion(a, b outcome, inputs Paths) string {
	if a.ok != b.ok || a.extra != b.extra {
		return "success flag / scale differ"
	}
	probes := kit.Probes([]Paths{inputs, a.closed, b.closed, junkPolygons()}, kit.ProbeOpt{Closed: true, Max: 4000})
	avoid := append(append(Paths{}, inputs...), junkPolygons()...)
	for _, q := range probes {
		if !kit.FarFrom(q, avoid, true, band) {
			continue
		}
		w1, on1 := kit.Wind(a.closed, q)
		w2, on2 := kit.Wind(b.closed, q)
		if on1 || on2 {
			continue // on a result edge (offset results lie away from the inputs)
		}
		if (w1 != 0) != (w2 != 0) {
			return fmt.Sprintf("closed regions differ at %v (winding %d vs %d)", q, w1, w2)
		}
	}
	// open solutions: every vertex of one lies within 2.5 units of the other
	for _, pair := range [][2]Paths{{a.open, b.open}, {b.open, a.open}} {
		for _, p := range pair[0] {
			for _, v := range p {
				if !kit.FarFrom(v, inputs, false, 3) && len(pair[1]) > 0 {
					continue // near an input edge of any kind: cut points may legitimately move
				}
				if kit.MinDist(v, pair[1], false) > 2.5 {
					return fmt.Sprintf("open solutions differ near %v", v)
				}
			}
		}
	}
	return ""
}

func judgeC12(c *C12Case, cx *Ctx) *Violation {
	if c.Engine == "apicall" {
		a0, b0 := c.Call.snapshot()
		res := c.Call.Run()
		if !samePathsStrict(a0, c.Call.A) || !samePathsStrict(b0, c.Call.B) {
			return violf("%s modified a path slice supplied by the caller: before A=%v B=%v, after A=%v B=%v", c.Call.Fn, a0, b0, c.Call.A, c.Call.B)
		}
		_ = res
		cx.St.Eval(c, countVerts(a0)+countVerts(b0) > 0, "engine:apicall", "fn:"+c.Call.Fn)
		return nil
	}
	live := newEngine(c.Engine, c.Prec)
	var adds []C12Action
	var prev64 Paths
	var prevD c2.PathsD
	execs, dirty, kinds := 0, false, map[string]bool{}
	var snapshots []Paths
	firstExecDone, addedSinceExec := false, false
	for step, a := range c.Actions {
		if a.Kind == "add" {
			snapshots = append(snapshots, kit.ClonePaths(a.Paths))
			live.add(a)
			adds = append(adds, a)
			if firstExecDone {
				addedSinceExec = true // sticky: from now on the minima list has been sorted twice
			}
			continue
		}
		if len(adds) == 0 && c.Engine == "offset" {
			continue // Execute64 without groups leaves the solution argument untouched by design
		}
		got := live.exec(a, &prev64, &prevD)
		var inputs Paths
		for _, ad := range adds {
			inputs = append(inputs, ad.Paths...)
		}
		// a fresh engine that is given the same AddPaths calls (and nothing else)
		fresh := newEngine(c.Engine, c.Prec)
		for _, ad := range adds {
			fresh.add(ad)
		}
		fa := a
		fa.Sol = "fresh"
		var p64 Paths
		var pD c2.PathsD
		want := fresh.exec(fa, &p64, &pD)
		// Ties between local minima are broken by an unstable sort of a list that a used engine
		// has sorted before; after AddPaths that follow an execute, path order, start vertices
		// and collinear vertices may therefore differ and the results are compared as regions.
		// Without any add after the first execute the result must be deeply equal.
		diff := ""
		if addedSinceExec {
			diff = sameRegion(got, want, inputs)
		} else if got.String() != want.String() {
			diff = "results are not deeply equal"
		}
		if diff != "" && addedSinceExec {
			if in, _ := kit.NearDegenerate([]Paths{inputs}, true, nearTol); in && kfActive("C12", "class:near-degenerate") {
				cx.St.Count("mismatch_attributed_to_listed_class", 1)
				diff = ""
			}
		}
		firstExecDone = true
		if live.lastInD != nil && fmt.Sprint(live.lastInD) != live.lastInDSnap {
			return violf("step %d (%s, solution argument %q) modified the PathsD supplied to AddPaths: before %s, after %v", step, a.Kind, a.Sol, clip400(live.lastInDSnap), live.lastInD)
		}
		if diff != "" {
			return violf("%s: "+"step %d (%s %s/%s, solution argument %q) on a used %s engine returned\n   %s\nbut a fresh engine given the same paths returns\n   %s\nhistory: %s",
				diff, step, a.Kind, ctName(a.CT), frName(a.FR), a.Sol, c.Engine, clip400(got.String()), clip400(want.String()), describeHistory(c.Actions[:step+1]))
		}
		execs++
		kinds[a.Kind+fmt.Sprint(a.CT, a.FR)] = true
		if a.Sol != "fresh" {
			dirty = true
		}
	}
	// the engine must not have modified the caller's paths
	k := 0
	for _, a := range c.Actions {
		if a.Kind == "add" {
			if !samePathsStrict(snapshots[k], a.Paths) {
				return violf("the engine modified paths supplied by the caller: before %v, after %v", snapshots[k], a.Paths)
			}
			k++
		}
	}
	cx.St.Eval(c, execs >= 2 && (len(kinds) >= 2 || dirty), "engine:"+c.Engine, fmt.Sprintf("execs:%d", min(execs, 4)), boolLabel("dirty-solution-arg", dirty))
	return nil
}

func clip400(s string) string {
	if len(s) > 400 {
		return s[:400] + "..."
	}
	return s
}

func describeHistory(as []C12Action) string {
	s := ""
	for _, a := range as {
		if a.Kind == "add" {
			s += fmt.Sprintf(" add(pt=%d open=%v %v);", a.PT, a.Open, a.Paths)
		} else {
			s += fmt.Sprintf(" %s(%s/%s sol=%s delta=%v);", a.Kind, ctName(a.CT), frName(a.FR), a.Sol, a.Delta)
		}
	}
	return clip400(s)
}

func init() {
	defProp("C12",
		"rapid-generated histories of 3-9 steps on one engine object (Clipper64, ClipperD with precision 2/0/1/-1, ClipperOffset): AddPaths (subject / clip / open subject; join and end types for offset groups) and Execute / ExecuteOC / ExecutePolyTree / Execute64 with any clip type (one in seven executes NoClip or a value outside the enum), fill rule, delta, and a solution argument that is fresh, pre-filled with junk, the previous solution, a slice with spare capacity, or a slice sharing the point buffers of the paths just added (a junk child in the tree; the reference execution of the fresh engine gets clean arguments); after every execute the observable result (bool, closed paths, open paths, tree shape and polygons, scale) must be deeply equal to that of a fresh engine given exactly the same AddPaths calls; caller-owned path slices are compared with deep copies afterwards; plus single API calls of the C03 grammar whose inputs must stay unmodified; non-trivial = >= 2 executes with different parameters or a dirty solution argument",
		[]string{"'another order' of AddPaths is covered at region level by C17 (path permutation); here the fresh engine replays the same AddPaths calls so that deep equality is the right oracle"},
		drawC12, judgeC12)
}

func TestC12(t *testing.T) { runProp(t, "C12") }
