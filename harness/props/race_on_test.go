//go:build race

package props

const raceEnabled = true
