package props

import (
	"testing"
)

// C03: every entry point is total. The case is one APICall (api_calls.go).

func judgeC03(c *APICall, cx *Ctx) *Violation {
	watchdogArm("C03", c)
	res := c.Run()
	watchdogDisarm()

	if res.Panic != nil {
		badPrec := c.takesPrecision() && (c.Prec < -8 || c.Prec > 8)
		if !(res.PrecPanic && badPrec) {
			return violf("%s panicked: %v (precision %d)", c.Fn, res.Panic, c.Prec)
		}
		cx.St.Eval(c, false, "fn:"+c.Fn, "precision-range-panic(permitted)")
		return nil
	}
	if res.ExecFalse {
		return violf("%s: Execute returned false (clip type %d, fill rule %d)", c.Fn, c.CT, c.FR)
	}
	// non-trivial: the call got past the entry guards with real geometry
	nt := false
	for _, p := range append(append(Paths{}, c.A...), c.B...) {
		if len(dedupLine(p)) >= 3 {
			nt = true
		}
	}
	cx.St.Eval(c, nt, "fn:"+c.Fn)
	return nil
}

func init() {
	defProp("C03",
		"rapid-generated single API calls over a grammar of every exported operation (boolean functions and wrappers 64/D, engine objects incl. AddPath, scale-func variants and PolyTree executes, InflatePaths64/D, ClipperOffset incl. two groups and a delta callback, NewGroup, Minkowski 64/D, RectClip paths/lines 64/D and their objects, Simplify*, TrimCollinear*, StripDuplicates, areas, bounds, PointInPolygon, Path2ContainsPath1, Ellipse*, scale/convert/translate helpers, Rect/Point methods, the PolyPath node API) with hostile paths (nil, empty, 1-2 points, repeated points, collinear, horizontal, spikes, pool coordinates up to 2^29), hostile scalars (0, +-0.49, +-0.5, 1e-300, +-1e12), every enum value 0..5 and 255, empty / inverted / zero-width rectangles, precisions incl. out-of-range ones; oracle: no panic except ErrPrecisionRange for a precision outside [-8,8], every Execute* returns true, the call returns within 10 s (in-process watchdog saves the journalled case); non-trivial = an argument path has >= 3 distinct consecutive points",
		[]string{"resource-shaped preconditions: round joins/caps are asked for at most ~1e5 arc steps (arc tolerance >= |delta|*1e-5), ellipse radii and the scaled delta of round ends <= 1e9, Minkowski operands of at most 16 points each (their parallelograms are united), scaled float inputs stay within 2^30",
			"the 10 s deadline needs 10 s of wall clock and 9 s of process CPU time since the call started (a starved process is not a hang); typical calls take microseconds"},
		drawAPICall, judgeC03)
}

func TestC03(t *testing.T) { runProp(t, "C03") }
