package props

import (
	"strings"
	"encoding/json"
	"os"
	"path/filepath"
	"sync"
	"testing"

	"pgregory.net/rapid"
)

// C18Case: a batch of API calls that share read-only input slices, executed sequentially
// and then concurrently.
type C18Case struct {
	Pool       []Paths   `json:"pool"` // shared inputs
	Calls      []APICall `json:"calls"`
	AIdx       []int     `json:"a_idx"`
	BIdx       []int     `json:"b_idx"`
	Goroutines int       `json:"goroutines"`
	Rounds     int       `json:"rounds"`
}

func drawC18(t *rapid.T) *C18Case {
	c := &C18Case{}
	np := rapid.IntRange(1, 3).Draw(t, "poolSize")
	f := drawFamily(t)
	for i := 0; i < np; i++ {
		c.Pool = append(c.Pool, drawClosedPaths(t, f, 1, 3, "pool"))
	}
	n := rapid.IntRange(4, 10).Draw(t, "nCalls")
	for i := 0; i < n; i++ {
		call := drawAPICall(t)
		if call.takesPrecision() && (call.Prec < -8 || call.Prec > 8) {
			call.Prec = 2
		}
		call.A, call.B = nil, nil
		if call.F[0] > 1e6 || call.F[0] < -1e6 {
			call.F[0] = 1000 // keep the batch cheap under the race detector
		}
		c.Calls = append(c.Calls, *call)
		c.AIdx = append(c.AIdx, rapid.IntRange(0, np-1).Draw(t, "aIdx"))
		c.BIdx = append(c.BIdx, rapid.IntRange(0, np-1).Draw(t, "bIdx"))
	}
	c.Goroutines = rapid.SampledFrom([]int{2, 4, 8}).Draw(t, "goroutines")
	c.Rounds = rapid.IntRange(1, 2).Draw(t, "rounds")
	return c
}

func judgeC18(c *C18Case, cx *Ctx) *Violation {
	// journal: with -race and GORACE=halt_on_error=1 the process dies at the first race; the
	// driver then reports this file as the counter-example
	if outDir != "" {
		raw, _ := json.Marshal(c)
		b, _ := json.Marshal(failureFile{Property: "C18", Msg: "data race reported by the race detector while this batch ran (or the batch did not finish)", Case: raw})
		_ = os.WriteFile(filepath.Join(outDir, "journal."+shardTag+".json"), b, 0o644)
	}
	// bind the shared inputs: every call gets the same slice headers
	calls := make([]*APICall, len(c.Calls))
	for i := range c.Calls {
		cc := c.Calls[i]
		cc.A, cc.B = c.Pool[c.AIdx[i]], c.Pool[c.BIdx[i]]
		if strings.HasPrefix(cc.Fn, "Minkowski") && len(first(cc.A))*len(first(cc.B)) > 150 {
			// pattern x path parallelograms are united: 60 x 60 points take tens of minutes under
			// the race detector. Sub-slices keep sharing the pool's point buffers.
			a, b := first(cc.A), first(cc.B)
			cc.A, cc.B = Paths{a[:min(len(a), 12)]}, Paths{b[:min(len(b), 12)]}
		}
		if cc.Fn == "Clipper64.ExecuteOC" || cc.Fn == "ClipperD.ExecuteOC" {
			cc.Bo[1] = false
		}
		calls[i] = &cc
	}
	snap := make([]Paths, len(c.Pool))
	for i, p := range c.Pool {
		snap[i] = cloneKeepNil(p)
	}
	// The concurrent phase comes first and the "alone" results are computed afterwards: state
	// that the library initialises lazily on first use (a cache, a table) is then first touched
	// by several goroutines at once. In round 0 all goroutines are released together and run the
	// calls in the same order (the same call at the same moment); later rounds are staggered.
	type conc struct {
		i   int
		res APIResult
		fn  string
	}
	results := make([][]conc, c.Goroutines)
	start := make(chan struct{})
	var wg sync.WaitGroup
	for g := 0; g < c.Goroutines; g++ {
		wg.Add(1)
		go func(g int) {
			defer wg.Done()
			<-start
			for r := 0; r <= c.Rounds; r++ {
				for k := range calls {
					i := k
					if r > 0 {
						i = (k + g) % len(calls) // different goroutines start at different calls
					}
					cp := *calls[i] // own copy of the scalar arguments, shared path slices
					results[g] = append(results[g], conc{i: i, res: cp.Run(), fn: cp.Fn})
				}
			}
		}(g)
	}
	close(start)
	wg.Wait()
	base := make([]APIResult, len(calls))
	for i, cl := range calls {
		base[i] = cl.Run()
	}
	var firstDiff *Violation
	for g := range results {
		for _, cr := range results[g] {
			i, res := cr.i, cr.res
			if res.Fingerprint != base[i].Fingerprint || (res.Panic == nil) != (base[i].Panic == nil) || res.ExecFalse != base[i].ExecFalse {
				if firstDiff == nil {
					firstDiff = violf("%s returned a different result when %d goroutines ran the batch concurrently: alone %.300s..., concurrently %.300s... (panic alone %v, concurrently %v)",
						cr.fn, c.Goroutines, base[i].Fingerprint, res.Fingerprint, base[i].Panic, res.Panic)
				}
			}
		}
	}
	if firstDiff != nil {
		return firstDiff
	}
	for i, p := range c.Pool {
		if !samePathsStrict(snap[i], p) {
			return violf("a shared read-only input was modified during concurrent use: before %v after %v", snap[i], p)
		}
	}
	sweeps := 0
	for _, cl := range calls {
		switch cl.Fn {
		case "Area64", "AreaPaths64", "AreaD", "AreaPathsD", "IsPositive64", "IsPositiveD", "GetBounds64", "RectMethods", "PointMethods", "Misc", "Ellipse64", "EllipseD":
		default:
			sweeps++
		}
	}
	cx.St.Eval(c, sweeps >= 2 && countVerts(c.Pool[0]) >= 3, boolLabel("race-detector", raceEnabled), goroutineLabel(c.Goroutines))
	cx.St.Count("concurrent_calls", int64(c.Goroutines*(c.Rounds+1)*len(calls)))
	return nil
}

func goroutineLabel(g int) string {
	switch {
	case g <= 2:
		return "goroutines:2"
	case g <= 4:
		return "goroutines:4"
	}
	return "goroutines:8"
}

func init() {
	defProp("C18",
		"rapid-generated batches of 4-10 calls of the C03 grammar (distinct engine / offset / rect-clip objects per call) whose path arguments are shared slices from a pool of 1-3 path sets (and, for ClipperOffset.SharedDeltaCallback, one shared callback variable); the batch runs 2-3 times in each of 2, 4 or 8 goroutines at once (first round: all goroutines released together on the same call order, so that lazily initialised library state is first touched concurrently; later rounds: every goroutine starts at a different call) and only then once sequentially (the results of each call alone); the test binary is built with -race (GORACE=halt_on_error=1): a race report is a violation, every concurrent result must equal its sequential result, the shared inputs must be unchanged; non-trivial = at least two calls of the batch run sweeps / clippers on a shared input with >= 3 vertices",
		[]string{"the harness does not control the schedule; the race detector reports unordered conflicting accesses that actually execute, whatever the timing",
			"a case killed by the race detector is reported through a journal file, not shrunk"},
		drawC18, judgeC18)
}

func TestC18(t *testing.T) { runProp(t, "C18") }
