package props

import (
	"math"
	"math/big"
	"os"
	"testing"

	c2 "github.com/bolom009/go-clipper2"
	"pgregory.net/rapid"

	"verifharness/kit"
)

// C19Case: one (subject, clip, fill rule); all clip types are run by the judge.
type C19Case struct {
	Fam   Family      `json:"fam"`
	Subj  Paths       `json:"subj"`
	Clip  Paths       `json:"clip"`
	FR    c2.FillRule `json:"fr"`
	Extra []P         `json:"extra"`
	// Entry: 0 BooleanOpPaths64, 1 the convenience wrappers, 2 an engine fed path by path,
	// 4 one engine object executing Union, Intersection, Difference and Xor in turn,
	// 5 an engine fed through the single-path AddPath
	Entry int `json:"entry,omitempty"`
}

// drawLargePath: noisy star (few crossings) or short-step random walk (many local crossings).
func drawLargePath(t *rapid.T, n int, R int64) Path {
	p := make(Path, 0, n)
	if rapid.Bool().Draw(t, "star") {
		noise := rapid.Int64Range(0, R/50+1).Draw(t, "noise")
		cx, cy := rapid.Int64Range(-R/4, R/4).Draw(t, "cx"), rapid.Int64Range(-R/4, R/4).Draw(t, "cy")
		rad := float64(rapid.Int64Range(R/4, R/2).Draw(t, "rad"))
		seed := rapid.Uint64().Draw(t, "noiseSeed")
		for i := 0; i < n; i++ {
			a := 2 * math.Pi * float64(i) / float64(n)
			seed = seed*6364136223846793005 + 1442695040888963407
			nx := int64(seed>>33)%(2*noise+1) - noise
			seed = seed*6364136223846793005 + 1442695040888963407
			ny := int64(seed>>33)%(2*noise+1) - noise
			p = append(p, P{X: clampC(cx + int64(rad*math.Cos(a)) + nx), Y: clampC(cy + int64(rad*math.Sin(a)) + ny)})
		}
		return p
	}
	step := R / 40
	x, y := rapid.Int64Range(-R/2, R/2).Draw(t, "wx"), rapid.Int64Range(-R/2, R/2).Draw(t, "wy")
	seed := rapid.Uint64().Draw(t, "walkSeed")
	for i := 0; i < n; i++ {
		p = append(p, P{X: x, Y: y})
		seed = seed*6364136223846793005 + 1442695040888963407
		dx := int64(seed>>33)%(2*step+1) - step
		seed = seed*6364136223846793005 + 1442695040888963407
		dy := int64(seed>>33)%(2*step+1) - step
		x, y = clampR(x+dx, R), clampR(y+dy, R)
	}
	return p
}

func drawC19(t *rapid.T) *C19Case {
	c := &C19Case{}
	large := os.Getenv("VERIF_TIER") == "thorough" && rapid.IntRange(0, 39).Draw(t, "large") == 0
	if large {
		R := rapid.SampledFrom([]int64{100000, 10000000, maxC}).Draw(t, "R")
		c.Fam = Family{Kind: "large", R: R}
		ns, nc := rapid.IntRange(1, 2).Draw(t, "ns"), rapid.IntRange(1, 2).Draw(t, "nc")
		for i := 0; i < ns; i++ {
			c.Subj = append(c.Subj, drawLargePath(t, rapid.IntRange(500, 4000).Draw(t, "n"), R))
		}
		for i := 0; i < nc; i++ {
			c.Clip = append(c.Clip, drawLargePath(t, rapid.IntRange(500, 2000).Draw(t, "n"), R))
		}
	} else {
		c.Fam = drawFamily(t)
		c.Subj = drawClosedPaths(t, c.Fam, 1, 3, "subj")
		c.Clip = drawClosedPaths(t, c.Fam, 1, 3, "clip")
		switch rapid.IntRange(0, 23).Draw(t, "emptyOperand") {
		case 0:
			c.Subj = Paths{} // empty but not nil
		case 1:
			c.Clip = Paths{}
		}
		c.Entry = rapid.SampledFrom([]int{0, 0, 1, 2, 4, 5}).Draw(t, "entry")
	}
	c.FR = rapid.SampledFrom(allFillRules).Draw(t, "fr")
	for i, n := 0, rapid.IntRange(0, 6).Draw(t, "nExtra"); i < n; i++ {
		c.Extra = append(c.Extra, P{X: rapid.Int64Range(-c.Fam.R, c.Fam.R).Draw(t, "ex"), Y: rapid.Int64Range(-c.Fam.R, c.Fam.R).Draw(t, "ey")})
	}
	return c
}

func areaOf(ps Paths) float64 { return kit.BigToFloat(kit.Area2Sum(ps)) / 2 }

func eventAreas(evs []c2.VerifEvent, kinds ...string) float64 {
	a := 0.0
	for _, e := range evs {
		for _, k := range kinds {
			if e.Kind == k {
				a += math.Abs(kit.BigToFloat(kit.Area2(e.Pts))) / 2
			}
		}
	}
	return a
}

func judgeC19(c *C19Case, cx *Ctx) *Violation {
	var pooled []c2.VerifEvent
	entry := c.Entry
	switch entry {
	case 4:
		entry = 0
	case 5:
		entry = 4 // runBoolean's engine fed through the single-path AddPath
	}
	run := func(ct c2.ClipType, s, cl Paths) Paths {
		sol, evs := runBoolean(entry, ct, c.FR, s, cl)
		pooled = append(pooled, evs...)
		return sol
	}
	empty := Paths{}
	var U, I, D, X Paths
	if c.Entry == 4 {
		e := c2.NewClipper64()
		e.AddPaths(c.Subj, c2.Subject, false)
		e.AddPaths(c.Clip, c2.Clip, false)
		c2.VerifStartRecording()
		for _, st := range []struct {
			ct  c2.ClipType
			dst *Paths
		}{{c2.Union, &U}, {c2.Intersection, &I}, {c2.Difference, &D}, {c2.Xor, &X}} {
			*st.dst = Paths{}
			if !e.Execute(st.ct, c.FR, st.dst) {
				stopRecording()
				return violf("Execute(%s) on a reused engine returned false", ctName(st.ct))
			}
		}
		pooled = append(pooled, stopRecording()...)
	} else {
		U = run(c2.Union, c.Subj, c.Clip)
		I = run(c2.Intersection, c.Subj, c.Clip)
		D = run(c2.Difference, c.Subj, c.Clip)
		X = run(c2.Xor, c.Subj, c.Clip)
	}
	D2 := run(c2.Difference, c.Clip, c.Subj)
	S1 := run(c2.Union, c.Subj, empty)
	C1 := run(c2.Union, c.Clip, empty)

	if u1 := c2.UnionPaths64(c.Subj, c.FR); !kit.PathsEqual(u1, S1) {
		return violf("UnionPaths64(S) = %v differs from BooleanOpPaths64(Union, S, empty) = %v", u1, S1)
	}

	inputs := append(append(Paths{}, c.Subj...), c.Clip...)
	L := kit.PerimeterF(inputs)
	tol := 2*L + 1
	inClass, why := kit.NearDegenerate([]Paths{inputs}, true, nearTol)
	classOK := inClass && kfActive("C19", "class:near-degenerate")
	dropOK := kfActive("C19", "callsite:split-drop")
	slack := 0.0
	if dropOK {
		slack = eventAreas(pooled, "split-drop-tri", "split-drop-path")
	}
	aU, aI, aD, aX, aD2, aS, aC := areaOf(U), areaOf(I), areaOf(D), areaOf(X), areaOf(D2), areaOf(S1), areaOf(C1)
	sgn := 1.0 // solutions are positively oriented whatever the fill rule
	type ident struct {
		name string
		diff float64
	}
	ids := []ident{
		{"area(U)+area(I)-area(S)-area(C)", sgn * (aU + aI - aS - aC)},
		{"area(X)-area(U)+area(I)", sgn * (aX - aU + aI)},
		{"area(D)-area(S)+area(I)", sgn * (aD - aS + aI)},
		{"area(D)+area(I)+area(D')-area(U)", sgn * (aD + aI + aD2 - aU)},
	}
	attributedArea := 0
	for _, id := range ids {
		if math.Abs(id.diff) <= tol {
			continue
		}
		if math.Abs(id.diff) <= tol+slack {
			attributedArea++
			continue
		}
		if classOK {
			attributedArea++
			continue
		}
		return violf("set identity %s = %.1f exceeds 2 x total edge length = %.1f (fill rule %s; areas U=%.1f I=%.1f D=%.1f X=%.1f D'=%.1f S=%.1f C=%.1f; discarded-lobe slack %.1f); events=%s",
			id.name, id.diff, tol, frName(c.FR), aU, aI, aD, aX, aD2, aS, aC, slack, fmtEvents(pooled))
	}

	probes := kit.Probes([]Paths{c.Subj, c.Clip}, kit.ProbeOpt{Closed: true, Extra: c.Extra, Max: 4000})
	judged, att := 0, 0
	in := func(ps Paths, q P) (bool, bool) {
		w, on := kit.Wind(ps, q)
		return w != 0, on
	}
	nI, nU := 0, 0
	for _, q := range probes {
		if !kit.FarFrom(q, inputs, true, band) {
			continue
		}
		judged++
		u, o1 := in(U, q)
		i, o2 := in(I, q)
		d, o3 := in(D, q)
		x, o4 := in(X, q)
		d2, o5 := in(D2, q)
		s, o6 := in(S1, q)
		if i {
			nI++
		}
		if u {
			nU++
		}
		bad := ""
		switch {
		case o1 || o2 || o3 || o4 || o5 || o6:
			bad = "a solution edge passes through a point more than 2 units from every input edge"
		case x != (u && !i):
			bad = "Xor != Union minus Intersection"
		case d != (s && !i):
			bad = "Difference != subject minus Intersection"
		case (d && i) || (d && d2) || (i && d2):
			bad = "Difference(S,C), Intersection, Difference(C,S) are not pairwise disjoint"
		case u != (d || i || d2):
			bad = "Union != Difference(S,C) + Intersection + Difference(C,S)"
		}
		if bad == "" {
			continue
		}
		if k := attribute(q, pooled); k != "" && kfActive("C19", kfKeyForEvent(k)) {
			att++
			continue
		}
		if classOK {
			att++
			continue
		}
		return violf("%s at %v (fill rule %s): in U=%v I=%v D=%v X=%v D'=%v S=%v; events=%s", bad, q, frName(c.FR), u, i, d, x, d2, s, fmtEvents(pooled))
	}
	nv := countVerts(inputs)
	size := "verts:<100"
	switch {
	case nv >= 1000:
		size = "verts:>=1000"
	case nv >= 100:
		size = "verts:100-999"
	}
	dom := "domain:strict"
	if inClass {
		dom = "domain:near-degenerate(" + why + ")"
	}
	cx.St.Eval(c, nI > 0 && nI < nU, c.Fam.Label(), "fr:"+frName(c.FR), size, dom)
	cx.St.Count("probes_judged", int64(judged))
	cx.St.Count("mismatch_attributed", int64(att))
	cx.St.Count("area_identities_attributed", int64(attributedArea))
	_ = big.NewInt
	return nil
}

func init() {
	defProp("C19",
		"C01's families (and, in the thorough tier, 1-2 subject and clip paths of 500-4000 vertices: noisy stars and short-step random walks, extents 1e5 .. 2^29) x 4 fill rules; the library computes Union, Intersection, Difference, Xor, Difference(C,S) and the self-unions of each side; oracle: the four area identities within 2 x total input edge length, the point-membership identities at probes farther than 2.001 from all input edges, UnionPaths64(S) == BooleanOpPaths64(Union,S,empty) exactly; non-trivial = probes saw the Intersection non-empty and smaller than the Union",
		[]string{"metamorphic: the library is compared with itself across clip types; absolute correctness of each result is C01's job",
			"areas are exact big-integer shoelace sums of the returned paths"},
		drawC19, judgeC19)
}

func TestC19(t *testing.T) { runProp(t, "C19") }
