package props

import (
	"math"
	"math/big"
	"testing"

	c2 "github.com/bolom009/go-clipper2"
	"pgregory.net/rapid"

	"verifharness/kit"
)

// C16Case: one SimplifyPath call plus a translation / power-of-two scaling for the
// metamorphic part. Coordinates of Path are small enough that the transformed copies stay
// within 2^29.
type C16Case struct {
	Variant string  `json:"variant"` // 64 | D | paths64 | pathsD
	Path    Path    `json:"path"`
	DShift  int     `json:"d_shift"` // D variants: coordinates are Path / 2^DShift (exact in float64)
	Eps     float64 `json:"eps"`
	Closed  bool    `json:"closed"`
	DX      int64   `json:"dx"`
	DY      int64   `json:"dy"`
	ScaleK  int     `json:"scale_k"`
}

func drawC16(t *rapid.T) *C16Case {
	c := &C16Case{Variant: rapid.SampledFrom([]string{"64", "64", "D", "paths64", "pathsD"}).Draw(t, "variant")}
	c.Closed = rapid.Bool().Draw(t, "closed")
	magBits := rapid.IntRange(4, 28).Draw(t, "magBits") // base extent 2^magBits; scaled copy stays <= 2^28
	c.ScaleK = rapid.IntRange(0, min(8, 28-magBits)).Draw(t, "scaleK")
	R := int64(1) << magBits
	switch rapid.IntRange(0, 6).Draw(t, "epsKind") {
	case 0:
		c.Eps = 0
	case 1:
		c.Eps = 0.5
	case 2:
		c.Eps = 1
	case 3:
		c.Eps = 2
	case 4: // as large as the path itself (everything but the end points may go)
		c.Eps = rapid.Float64Range(float64(R)/4, 4*float64(R)).Draw(t, "epsHuge")
	default:
		c.Eps = rapid.Float64Range(0.01, float64(R)/4).Draw(t, "eps")
	}
	n := rapid.IntRange(0, 40).Draw(t, "n")
	if rapid.IntRange(0, 3).Draw(t, "short") == 0 {
		n = rapid.IntRange(0, 6).Draw(t, "nShort")
	}
	c.Path = drawZigZag(t, R, c.Eps, n)
	// translation keeps everything (also the scaled copy) within 2^29
	room := maxC - R - 1
	c.DX = rapid.Int64Range(-room, room).Draw(t, "tdx")
	c.DY = rapid.Int64Range(-room, room).Draw(t, "tdy")
	if c.Variant == "D" || c.Variant == "pathsD" {
		c.DShift = rapid.IntRange(0, 10).Draw(t, "dShift")
	}
	return c
}

// drawZigZag draws a path of n points within [-R,R]^2: a zig-zag around a base polyline with
// amplitudes around eps, exactly collinear runs, duplicates and almost collinear Fibonacci steps.
func drawZigZag(t *rapid.T, R int64, eps float64, n int) Path {
	// a zig-zag around a base polyline with amplitudes around eps, plus collinear runs
	var p Path
	cur := P{X: rapid.Int64Range(-R, R).Draw(t, "x0"), Y: rapid.Int64Range(-R, R).Draw(t, "y0")}
	amp := int64(math.Ceil(eps)) + 1
	for len(p) < n {
		switch rapid.IntRange(0, 5).Draw(t, "step") {
		case 0: // generic jump
			cur = P{X: rapid.Int64Range(-R, R).Draw(t, "x"), Y: rapid.Int64Range(-R, R).Draw(t, "y")}
			p = append(p, cur)
		case 1: // exactly collinear run
			dx, dy := rapid.Int64Range(-R/8-1, R/8+1).Draw(t, "rdx"), rapid.Int64Range(-R/8-1, R/8+1).Draw(t, "rdy")
			m := rapid.IntRange(1, 4).Draw(t, "runLen")
			for j := 0; j < m && len(p) < n; j++ {
				cur = P{X: clampR(cur.X+dx, R), Y: clampR(cur.Y+dy, R)}
				p = append(p, cur)
			}
		case 2: // duplicate
			p = append(p, cur)
		case 3: // almost collinear at large magnitude: consecutive Fibonacci directions (cross product exactly +-1)
			k := rapid.IntRange(2, 40).Draw(t, "fib")
			f0, f1 := int64(1), int64(1)
			for j := 0; j < k && f1 < R/4; j++ {
				f0, f1 = f1, f0+f1
			}
			s1, s2 := rapid.SampledFrom([]int64{-1, 1}).Draw(t, "fs1"), rapid.SampledFrom([]int64{-1, 1}).Draw(t, "fs2")
			cur = P{X: clampR(cur.X+s1*f0, R), Y: clampR(cur.Y+s2*f1, R)}
			p = append(p, cur)
			if len(p) < n {
				cur = P{X: clampR(cur.X+s1*f1, R), Y: clampR(cur.Y+s2*(f0+f1), R)}
				p = append(p, cur)
			}
		default: // zig-zag step: advance and wobble by about eps
			dx, dy := rapid.Int64Range(-R/6-1, R/6+1).Draw(t, "zdx"), rapid.Int64Range(-R/6-1, R/6+1).Draw(t, "zdy")
			wob := rapid.Int64Range(-2*amp, 2*amp).Draw(t, "wob")
			// perpendicular direction (rounded)
			l := math.Hypot(float64(dx), float64(dy))
			px, py := int64(0), int64(0)
			if l > 0 {
				px, py = int64(math.Round(-float64(dy)/l*float64(wob))), int64(math.Round(float64(dx)/l*float64(wob)))
			}
			cur = P{X: clampR(cur.X+dx+px, R), Y: clampR(cur.Y+dy+py, R)}
			p = append(p, cur)
		}
	}
	return p
}

func clampR(v, R int64) int64 {
	if v > R {
		return R
	}
	if v < -R {
		return -R
	}
	return v
}

func toD(p Path, shift int) c2.PathD {
	f := math.Ldexp(1, -shift)
	r := make(c2.PathD, len(p))
	for i, v := range p {
		r[i] = c2.PointD{X: float64(v.X) * f, Y: float64(v.Y) * f}
	}
	return r
}

// simplifyAny runs the variant on integer input (scaled view for D variants) and returns
// the result mapped back to the integer lattice of the case (exact: powers of two only).
func simplifyAny(variant string, p Path, shift int, eps float64, closed bool) (Path, bool) {
	switch variant {
	case "64":
		return c2.SimplifyPath64(p, eps, closed), true
	case "paths64":
		r := c2.SimplifyPaths64(Paths{p, {}}, eps, closed)
		if len(r) != 2 || len(r[1]) != 0 {
			return nil, false
		}
		return r[0], true
	default:
		f := math.Ldexp(1, -shift)
		var rd c2.PathD
		if variant == "D" {
			rd = c2.SimplifyPathD(toD(p, shift), eps*f, closed)
		} else {
			r := c2.SimplifyPathsD(c2.PathsD{toD(p, shift)}, eps*f, closed)
			if len(r) != 1 {
				return nil, false
			}
			rd = r[0]
		}
		out := make(Path, len(rd))
		for i, v := range rd {
			x, y := v.X/f, v.Y/f
			if x != math.Trunc(x) || y != math.Trunc(y) {
				return nil, false
			}
			out[i] = P{X: int64(x), Y: int64(y)}
		}
		return out, true
	}
}

func judgeC16(c *C16Case, cx *Ctx) *Violation {
	in := append(Path{}, c.Path...)
	res, ok := simplifyAny(c.Variant, c.Path, c.DShift, c.Eps, c.Closed)
	if !ok {
		return violf("Simplify variant %s returned a malformed result for %v", c.Variant, in)
	}
	n := len(in)
	if n < 4 {
		if !kit.PathsEqual(Paths{res}, Paths{in}) {
			return violf("Simplify(%s) of a path with %d < 4 points must return it unchanged: %v -> %v", c.Variant, n, in, res)
		}
		cx.St.Eval(c, false, "variant:"+c.Variant, "short-path")
		return nil
	}
	if !isCyclicSubsequence(res, in, false) {
		return violf("Simplify(%s, eps=%v, closed=%v) of %v = %v is not a sub-sequence of the input", c.Variant, c.Eps, c.Closed, in, res)
	}
	if !c.Closed && (len(res) < 2 || res[0] != in[0] || res[len(res)-1] != in[n-1]) {
		return violf("Simplify(%s, open) of %v = %v does not keep both end points", c.Variant, in, res)
	}
	m := len(res)
	if m > 2 {
		eps2 := new(big.Float).SetPrec(300).SetFloat64(c.Eps)
		eps2.Mul(eps2, eps2)
		slack := new(big.Float).SetPrec(300).SetFloat64(1 - 1e-9)
		for i := 0; i < m; i++ {
			if !c.Closed && (i == 0 || i == m-1) {
				continue
			}
			a, b, d := res[(i+m-1)%m], res[i], res[(i+1)%m]
			if a == d {
				continue // line through two equal neighbours is undefined
			}
			// distance of b from line a-d: cross^2 / |d-a|^2
			cr := kit.CrossBig(a, d, b) // (d-a) x (b-d): same magnitude as (d-a) x (b-a)
			cr2 := new(big.Float).SetPrec(300).SetInt(new(big.Int).Mul(cr, cr))
			dx, dy := big.NewInt(d.X-a.X), big.NewInt(d.Y-a.Y)
			l2 := new(big.Int).Add(new(big.Int).Mul(dx, dx), new(big.Int).Mul(dy, dy))
			lim := new(big.Float).SetPrec(300).SetInt(l2)
			lim.Mul(lim, eps2)
			lim.Mul(lim, slack)
			if cr.Sign() == 0 || cr2.Cmp(lim) < 0 {
				return violf("Simplify(%s, eps=%v, closed=%v) of %v = %v retains %v which is within eps of the line through its retained neighbours %v and %v (cross=%v, |d-a|^2=%v)",
					c.Variant, c.Eps, c.Closed, in, res, b, a, d, cr, l2)
			}
		}
	}
	if c.Eps == 0 && c.Closed {
		if kit.Area2(in).Cmp(kit.Area2(res)) != 0 {
			return violf("Simplify(%s, eps=0, closed) changes the exact doubled area of %v from %v to %v (result %v)", c.Variant, in, kit.Area2(in), kit.Area2(res), res)
		}
		for _, q := range kit.Probes([]Paths{{in}}, kit.ProbeOpt{Closed: true, Max: 600}) {
			w1, on := kit.WindPath(in, q)
			if on {
				continue
			}
			if w2, _ := kit.WindPath(res, q); w1 != w2 {
				return violf("Simplify(%s, eps=0, closed) of %v = %v changes the winding number at %v from %d to %d", c.Variant, in, res, q, w1, w2)
			}
		}
	}
	// metamorphic: translation, and scaling of path and eps by 2^k
	tr := make(Path, n)
	sc := make(Path, n)
	for i, v := range in {
		tr[i] = P{X: v.X + c.DX, Y: v.Y + c.DY}
		sc[i] = P{X: v.X << c.ScaleK, Y: v.Y << c.ScaleK}
	}
	rt, ok1 := simplifyAny(c.Variant, tr, c.DShift, c.Eps, c.Closed)
	rs, ok2 := simplifyAny(c.Variant, sc, c.DShift, math.Ldexp(c.Eps, c.ScaleK), c.Closed)
	if !ok1 || !ok2 {
		return violf("Simplify variant %s returned a malformed result for a transformed copy of %v", c.Variant, in)
	}
	if len(rt) != m || len(rs) != m {
		return violf("Simplify(%s, eps=%v, closed=%v) retains %d vertices of %v but %d after translation by (%d,%d) and %d after scaling by 2^%d", c.Variant, c.Eps, c.Closed, m, in, len(rt), c.DX, c.DY, len(rs), c.ScaleK)
	}
	for i := range res {
		if rt[i] != (P{X: res[i].X + c.DX, Y: res[i].Y + c.DY}) {
			return violf("Simplify(%s) retained set changes under translation by (%d,%d): %v vs %v (input %v)", c.Variant, c.DX, c.DY, res, rt, in)
		}
		if rs[i] != (P{X: res[i].X << c.ScaleK, Y: res[i].Y << c.ScaleK}) {
			return violf("Simplify(%s) retained set changes under scaling by 2^%d: %v vs %v (input %v)", c.Variant, c.ScaleK, res, rs, in)
		}
	}
	removedSome := m < n
	nontrivial := removedSome && m > 2
	big := "mag:small"
	if mx := maxAbs(tr); mx > 50000 {
		big = "mag:>5e4"
	}
	cx.St.Eval(c, nontrivial, "variant:"+c.Variant, boolLabel("closed", c.Closed), big, epsLabel(c.Eps), removedLabel(n-m, m))
	return nil
}

func maxAbs(p Path) int64 {
	var m int64
	for _, v := range p {
		m = max(m, abs64(v.X), abs64(v.Y))
	}
	return m
}

func epsLabel(e float64) string {
	switch {
	case e == 0:
		return "eps:0"
	case e <= 2:
		return "eps:<=2"
	}
	return "eps:>2"
}

func init() {
	defProp("C16",
		"rapid-generated paths of 0-40 points (zig-zags with amplitude around epsilon, exactly collinear runs, duplicates, generic jumps; base extent 2^4..2^28, translated anywhere within 2^29, scaled by 2^0..2^8) x epsilon in {0, 0.5, 1, 2, random} x closed/open x variants SimplifyPath64, SimplifyPaths64, SimplifyPathD, SimplifyPathsD (D inputs are the integers divided by a power of two, so everything is exact); oracle: sub-sequence, open ends kept, <4 points unchanged, no retained vertex with exact squared distance < eps^2(1-1e-9) (or exactly 0) from the line through its retained neighbours, eps=0 closed: exact area and winding numbers unchanged, identical retained vertices after translation and after scaling path and epsilon by 2^k; non-trivial = some but not all interior vertices removed",
		[]string{"distance oracle is exact rational arithmetic (math/big) with a 1e-9 relative slack so that float ties in the library never raise an alarm"},
		drawC16, judgeC16)
}

func TestC16(t *testing.T) { runProp(t, "C16") }
