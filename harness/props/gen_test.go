package props

import (
	"fmt"
	"math/bits"

	c2 "github.com/bolom009/go-clipper2"
	"pgregory.net/rapid"
)

type P = c2.Point64
type Path = c2.Path64
type Paths = c2.Paths64

const maxC = int64(1) << 29 // coordinate domain of C01..C12, C14..C17, C19

// hostile operand pool (C03, C14, ...): values where float detours and off-by-ones bite.
var poolVals = []int64{
	0, 1, -1, 2, -2, 3, -3, 7, 10, 100, -100, 1000,
	(1 << 26) - 1, 1 << 26, (1 << 26) + 1, -(1 << 26) - 1,
	(1 << 27) + 1, (1 << 28) - 1, (1 << 29) - 1, 1 << 29, -(1 << 29), -(1 << 29) + 1,
	46341, 46340, 65536, 65535, 3037000500 % (1 << 29),
}

// Family describes how the coordinates of a closed path set are generated.
type Family struct {
	Kind string `json:"kind"` // g1 | rect | oct | lattice | dense | boxes | levels (| tips-and-bars, C04 only)
	R    int64  `json:"r"`    // coordinate radius
	Step int64  `json:"step"` // lattice step (rect/oct/lattice)
	// Spread (g1 only): rapid's integer generators favour small magnitudes, which
	// clusters vertices around the origin; with Spread every drawn value is mapped
	// through a fixed multiplicative hash onto [-R,R], which gives generic position.
	Spread bool `json:"spread,omitempty"`
}

// spreadCoord maps v in [-R,R] to a pseudo-uniform value in [-R,R] (pure function).
func spreadCoord(v, R int64) int64 {
	u := uint64(v+R) * 0x9E3779B97F4A7C15
	u ^= u >> 29
	u *= 0xBF58476D1CE4E5B9
	u ^= u >> 32
	hi, _ := bits.Mul64(u, uint64(2*R+1))
	return int64(hi) - R
}

func (f Family) Label() string {
	if f.Spread {
		return "fam:" + f.Kind + "-spread"
	}
	return "fam:" + f.Kind
}

var g1Radii = []int64{1000, 10000, 1000000, 100000000, maxC}

func drawFamily(t *rapid.T) Family {
	k := rapid.IntRange(0, 11).Draw(t, "famKind")
	switch {
	case k == 11:
		// vertices on a few Y levels with generic X: many exactly horizontal edges, overlapping
		// horizontal runs of different paths on one scanline, tips exactly on the scanline of
		// another path's horizontal edge - the horizontal-join machinery without a lattice in X
		step := rapid.SampledFrom([]int64{2, 10, 1000, 1 << 20}).Draw(t, "step")
		return Family{Kind: "levels", R: 8 * step, Step: step}
	case k == 10:
		// plain axis-parallel boxes on a coarse grid, either orientation, several per set: unions
		// whose rings are cut many times along coincident edges
		step := rapid.SampledFrom([]int64{1, 10, 1000, 1 << 20}).Draw(t, "step")
		return Family{Kind: "boxes", R: 13 * step, Step: step}
	case k <= 3:
		return Family{Kind: "g1", R: rapid.SampledFrom(g1Radii).Draw(t, "R"), Spread: rapid.IntRange(0, 2).Draw(t, "spread") > 0}
	case k <= 5:
		step := rapid.SampledFrom([]int64{1, 2, 10, 1000, 1 << 20, 1 << 25}).Draw(t, "step")
		return Family{Kind: "rect", R: 8 * step, Step: step}
	case k <= 7:
		step := rapid.SampledFrom([]int64{2, 4, 10, 1000, 1 << 20, 1 << 24}).Draw(t, "step")
		return Family{Kind: "oct", R: 16 * step, Step: step}
	case k == 8:
		step := rapid.SampledFrom([]int64{1, 3, 10, 1000, 100000, 10000000}).Draw(t, "step")
		return Family{Kind: "lattice", R: 6 * step, Step: step}
	default:
		return Family{Kind: "dense", R: rapid.SampledFrom([]int64{10, 30, 100, 1000}).Draw(t, "R")}
	}
}

// drawStrictFamily draws only the families judged strictly (generic position and the
// exact-arrangement lattices).
func drawStrictFamily(t *rapid.T) Family {
	for {
		f := drawFamily(t)
		if f.Kind == "g1" || f.Kind == "rect" || f.Kind == "oct" || f.Kind == "boxes" {
			return f
		}
	}
}

func drawVertexCount(t *rapid.T, lo, hi, tail int) int {
	if tail > hi && rapid.IntRange(0, 19).Draw(t, "longPath") == 0 {
		return rapid.IntRange(hi, tail).Draw(t, "n")
	}
	return rapid.IntRange(lo, hi).Draw(t, "n")
}

var octDirs = [8][2]int64{{1, 0}, {1, 1}, {0, 1}, {-1, 1}, {-1, 0}, {-1, -1}, {0, -1}, {1, -1}}

func clampC(v int64) int64 {
	if v > maxC {
		return maxC
	}
	if v < -maxC {
		return -maxC
	}
	return v
}

// drawClosedPath draws one closed path of the family (may self-intersect freely).
func drawClosedPath(t *rapid.T, f Family) Path {
	switch f.Kind {
	case "boxes":
		x0, y0 := rapid.Int64Range(0, 12).Draw(t, "bx"), rapid.Int64Range(0, 12).Draw(t, "by")
		x1, y1 := rapid.Int64Range(x0+1, 13).Draw(t, "bx1"), rapid.Int64Range(y0+1, 13).Draw(t, "by1")
		p := Path{{X: x0 * f.Step, Y: y0 * f.Step}, {X: x1 * f.Step, Y: y0 * f.Step}, {X: x1 * f.Step, Y: y1 * f.Step}, {X: x0 * f.Step, Y: y1 * f.Step}}
		if rapid.Bool().Draw(t, "brev") {
			p = c2.ReversePath(p)
		}
		return p
	case "levels":
		n := drawVertexCount(t, 3, 10, 20)
		p := make(Path, 0, n)
		lv := rapid.Int64Range(-4, 4).Draw(t, "lv0")
		for i := 0; i < n; i++ {
			if i > 0 && rapid.IntRange(0, 9).Draw(t, "lvKeep") >= 3 {
				lv = rapid.Int64Range(-4, 4).Draw(t, "lv") // otherwise: stay on the level (a horizontal edge)
			}
			x := spreadCoord(rapid.Int64Range(-f.R, f.R).Draw(t, "lvx"), f.R)
			p = append(p, P{X: x, Y: lv * f.Step})
		}
		return p
	case "rect":
		m := rapid.IntRange(2, 6).Draw(t, "corners")
		xs := make([]int64, m)
		ys := make([]int64, m)
		for i := 0; i < m; i++ {
			xs[i] = rapid.Int64Range(-8, 8).Draw(t, "lx") * f.Step
			ys[i] = rapid.Int64Range(-8, 8).Draw(t, "ly") * f.Step
		}
		p := make(Path, 0, 2*m)
		for i := 0; i < m; i++ {
			p = append(p, P{X: xs[i], Y: ys[i]}, P{X: xs[(i+1)%m], Y: ys[i]})
		}
		return p
	case "oct":
		if rapid.IntRange(0, 3).Draw(t, "octTri") == 0 {
			// small right isosceles triangles (legs or hypotenuse axis-parallel): sets of a few of
			// them put several tips, horizontal runs and 45-degree edges on one scanline
			x := rapid.Int64Range(-6, 6).Draw(t, "tx") * f.Step
			y := rapid.Int64Range(-6, 6).Draw(t, "ty") * f.Step
			l := rapid.Int64Range(1, 4).Draw(t, "tl") * f.Step
			sx := int64(rapid.SampledFrom([]int{-1, 1}).Draw(t, "tsx"))
			sy := int64(rapid.SampledFrom([]int{-1, 1}).Draw(t, "tsy"))
			var p Path
			switch rapid.IntRange(0, 2).Draw(t, "tkind") {
			case 0:
				p = Path{{X: x, Y: y}, {X: x + sx*l, Y: y}, {X: x, Y: y + sy*l}}
			case 1:
				p = Path{{X: x, Y: y}, {X: x + 2*l, Y: y}, {X: x + l, Y: y + sy*l}}
			default:
				p = Path{{X: x, Y: y}, {X: x, Y: y + 2*l}, {X: x + sx*l, Y: y + l}}
			}
			if rapid.Bool().Draw(t, "trev") {
				p = c2.ReversePath(p)
			}
			return p
		}
		n := drawVertexCount(t, 3, 9, 24)
		x := rapid.Int64Range(-4, 4).Draw(t, "ox") * f.Step
		y := rapid.Int64Range(-4, 4).Draw(t, "oy") * f.Step
		p := make(Path, 0, n)
		for i := 0; i < n; i++ {
			p = append(p, P{X: clampC(x), Y: clampC(y)})
			d := octDirs[rapid.IntRange(0, 7).Draw(t, "dir")]
			l := rapid.Int64Range(1, 4).Draw(t, "len") * f.Step
			nx, ny := x+d[0]*l, y+d[1]*l
			if nx > 16*f.Step || nx < -16*f.Step || ny > 16*f.Step || ny < -16*f.Step {
				nx, ny = x-d[0]*l, y-d[1]*l
			}
			x, y = nx, ny
		}
		// close octilinearly: a diagonal leg, then an axis-parallel closing edge
		if len(p) > 1 {
			cur := p[len(p)-1]
			dx, dy := p[0].X-cur.X, p[0].Y-cur.Y
			if m := min(abs64(dx), abs64(dy)); m != 0 && abs64(dx) != abs64(dy) {
				p = append(p, P{X: cur.X + sgn64(dx)*m, Y: cur.Y + sgn64(dy)*m})
			}
		}
		return p
	case "lattice":
		n := drawVertexCount(t, 3, 8, 16)
		p := make(Path, n)
		for i := range p {
			p[i] = P{X: rapid.Int64Range(-6, 6).Draw(t, "lx") * f.Step, Y: rapid.Int64Range(-6, 6).Draw(t, "ly") * f.Step}
		}
		return p
	default: // g1, dense
		n := drawVertexCount(t, 3, 12, 60)
		p := make(Path, n)
		for i := range p {
			p[i] = P{X: rapid.Int64Range(-f.R, f.R).Draw(t, "x"), Y: rapid.Int64Range(-f.R, f.R).Draw(t, "y")}
			if f.Spread {
				p[i] = P{X: spreadCoord(p[i].X, f.R), Y: spreadCoord(p[i].Y, f.R)}
			}
		}
		return p
	}
}

// mutateSpelling applies, with small probability, spelling-level degeneracies that every
// closed-path entry point is documented to accept: repeated vertices, explicit closing
// vertex. (Region-preserving, so usable in strict families too.)
func mutateSpelling(t *rapid.T, p Path) Path {
	if len(p) == 0 {
		return p
	}
	switch rapid.IntRange(0, 11).Draw(t, "spell") {
	case 0: // explicit closing vertex
		return append(append(Path{}, p...), p[0])
	case 1: // repeat one vertex
		i := rapid.IntRange(0, len(p)-1).Draw(t, "dupAt")
		q := append(Path{}, p[:i+1]...)
		q = append(q, p[i])
		return append(q, p[i+1:]...)
	}
	return p
}

// drawDegeneratePath draws a path with no area / too few points.
func drawDegeneratePath(t *rapid.T, f Family) Path {
	pt := func() P {
		return P{X: rapid.Int64Range(-f.R, f.R).Draw(t, "dx"), Y: rapid.Int64Range(-f.R, f.R).Draw(t, "dy")}
	}
	switch rapid.IntRange(0, 6).Draw(t, "degKind") {
	case 0:
		return Path{}
	case 1:
		return Path{pt()}
	case 2:
		return Path{pt(), pt()}
	case 3:
		a := pt()
		return Path{a, a, a}
	case 4: // collinear
		a := pt()
		dx, dy := rapid.Int64Range(-3, 3).Draw(t, "cdx"), rapid.Int64Range(-3, 3).Draw(t, "cdy")
		n := rapid.IntRange(3, 6).Draw(t, "cn")
		p := make(Path, n)
		for i := range p {
			k := rapid.Int64Range(-5, 5).Draw(t, "ck")
			p[i] = P{X: clampC(a.X + k*dx), Y: clampC(a.Y + k*dy)}
		}
		return p
	case 5: // all horizontal
		a := pt()
		n := rapid.IntRange(3, 6).Draw(t, "hn")
		p := make(Path, n)
		for i := range p {
			p[i] = P{X: rapid.Int64Range(-f.R, f.R).Draw(t, "hx"), Y: a.Y}
		}
		return p
	default: // spike: a, b, a
		a, b := pt(), pt()
		return Path{a, b, a, b}
	}
}

// drawClosedPaths draws a set of lo..hi closed paths; with small probability one of
// them is degenerate or a copy / reversed copy of another (exact coincidence).
func drawClosedPaths(t *rapid.T, f Family, lo, hi int, label string) Paths {
	if f.Kind == "boxes" {
		hi += 3
	}
	n := rapid.IntRange(lo, hi).Draw(t, label+"Count")
	ps := make(Paths, 0, n)
	for i := 0; i < n; i++ {
		k := rapid.IntRange(0, 29).Draw(t, "pathKind")
		switch {
		case k == 0:
			ps = append(ps, drawDegeneratePath(t, f))
		case k == 1 && len(ps) > 0:
			src := ps[rapid.IntRange(0, len(ps)-1).Draw(t, "copyOf")]
			ps = append(ps, append(Path{}, src...))
		case k == 2 && len(ps) > 0:
			src := ps[rapid.IntRange(0, len(ps)-1).Draw(t, "revOf")]
			ps = append(ps, c2.ReversePath(src))
		default:
			ps = append(ps, mutateSpelling(t, drawClosedPath(t, f)))
		}
	}
	return ps
}

var allClipTypes = []c2.ClipType{c2.Intersection, c2.Union, c2.Difference, c2.Xor}
var allFillRules = []c2.FillRule{c2.EvenOdd, c2.NonZero, c2.Positive, c2.Negative}

func ctName(ct c2.ClipType) string {
	switch ct {
	case c2.NoClip:
		return "NoClip"
	case c2.Intersection:
		return "Intersection"
	case c2.Union:
		return "Union"
	case c2.Difference:
		return "Difference"
	case c2.Xor:
		return "Xor"
	}
	return fmt.Sprintf("ClipType(%d)", ct)
}

func frName(fr c2.FillRule) string {
	switch fr {
	case c2.EvenOdd:
		return "EvenOdd"
	case c2.NonZero:
		return "NonZero"
	case c2.Positive:
		return "Positive"
	case c2.Negative:
		return "Negative"
	}
	return fmt.Sprintf("FillRule(%d)", fr)
}

func countVerts(ps Paths) int {
	n := 0
	for _, p := range ps {
		n += len(p)
	}
	return n
}

func abs64(v int64) int64 {
	if v < 0 {
		return -v
	}
	return v
}

func sgn64(v int64) int64 {
	switch {
	case v > 0:
		return 1
	case v < 0:
		return -1
	}
	return 0
}
