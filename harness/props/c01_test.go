package props

import (
	"testing"

	c2 "github.com/bolom009/go-clipper2"
	"pgregory.net/rapid"

	"verifharness/kit"
)

// C01Case: one boolean operation on closed path sets.
type C01Case struct {
	Fam   Family      `json:"fam"`
	Subj  Paths       `json:"subj"`
	Clip  Paths       `json:"clip"` // nil = no clip set
	CT    c2.ClipType `json:"ct"`
	FR    c2.FillRule `json:"fr"`
	Entry int         `json:"entry"`
	Extra []P         `json:"extra"`
}

func drawBoolCase(t *rapid.T, f Family) *C01Case {
	c := &C01Case{Fam: f}
	c.Subj = drawClosedPaths(t, f, 1, 3, "subj")
	switch rapid.IntRange(0, 7).Draw(t, "clipKind") {
	case 0:
		c.Clip = nil
	case 1:
		c.Clip = Paths{}
	default:
		c.Clip = drawClosedPaths(t, f, 1, 3, "clip")
	}
	c.CT = rapid.SampledFrom(allClipTypes).Draw(t, "ct")
	c.FR = rapid.SampledFrom(allFillRules).Draw(t, "fr")
	c.Entry = rapid.IntRange(0, 4).Draw(t, "entry")
	nx := rapid.IntRange(0, 6).Draw(t, "nExtra")
	for i := 0; i < nx; i++ {
		c.Extra = append(c.Extra, P{X: rapid.Int64Range(-f.R, f.R).Draw(t, "ex"), Y: rapid.Int64Range(-f.R, f.R).Draw(t, "ey")})
	}
	return c
}

func judgeC01(c *C01Case, cx *Ctx) *Violation {
	sol, evs := runBoolean(c.Entry, c.CT, c.FR, c.Subj, c.Clip)
	if c.Entry != 0 && c.Entry != 3 { // (a reused engine may order its paths differently, see C12)
		ref := c2.BooleanOpPaths64(c.CT, c.Subj, c.Clip, c.FR)
		if !kit.PathsEqual(ref, sol) {
			return violf("entry point %d returned %v but BooleanOpPaths64 returned %v", c.Entry, sol, ref)
		}
	}
	probes := kit.Probes([]Paths{c.Subj, c.Clip}, kit.ProbeOpt{Closed: true, Extra: c.Extra})
	v, rs := judgeRegion("C01", c.Subj, c.Clip, c.CT, c.FR, sol, evs, probes)
	if v != nil {
		return v
	}
	nontrivial := rs.inside > 0 && rs.outside > 0 && hasInteraction(append(append(Paths{}, c.Subj...), c.Clip...))
	domain := "domain:strict"
	if in, why := kit.NearDegenerate([]Paths{c.Subj, c.Clip}, true, nearTol); in {
		domain = "domain:near-degenerate(" + why + ")"
	}
	cx.St.Eval(c, nontrivial, c.Fam.Label(), "op:"+ctName(c.CT)+"/"+frName(c.FR), entryLabel(c.Entry), clipLabel(c.Clip), domain)
	cx.St.Count("probes_judged", int64(rs.judged))
	cx.St.Count("probes_generated", int64(len(probes)))
	cx.St.Count("mismatch_attributed_to_listed_callsite", int64(rs.attributed))
	cx.St.Count("events_recorded", int64(len(evs)))
	cx.St.Count("mismatch_attributed_to_listed_class", int64(rs.attributedClass))
	if rs.attributedClass > 0 {
		cx.St.Count("cases_with_class_attributed_mismatch", 1)
	}
	return nil
}

func entryLabel(e int) string {
	switch e {
	case 1:
		return "entry:wrapper"
	case 2:
		return "entry:engine-split-addpaths"
	case 3:
		return "entry:engine-reused"
	case 4:
		return "entry:engine-AddPath-one-by-one"
	}
	return "entry:BooleanOpPaths64"
}

func clipLabel(c Paths) string {
	switch {
	case c == nil:
		return "clip:nil"
	case len(c) == 0:
		return "clip:empty"
	}
	return "clip:paths"
}

func init() {
	defProp("C01",
		"rapid-generated (subject, clip, clip type, fill rule, entry point): closed path sets from families g1 (uniform in +-R, R up to 2^29), rect/oct (exact lattice arrangements), lattice x K and dense (small range), boxes, levels (vertices on 9 Y levels with generic X: horizontal edges and shared scanlines without an X lattice), right isosceles triangles within oct, with copies, reversed copies, repeated/closing vertices and degenerate paths mixed in; oracle = exact winding number of every probe point farther than 2.001 units from all input edges; non-trivial = inputs contain a proper crossing or exact coincidence between non-adjacent edges AND probes were judged both inside and outside; distinct by FNV hash of the case",
		[]string{"oracle kit (exact integer winding, float distance with 0.001 guard) is correct; unit-tested against math/big",
			"probe points sample the faces of the arrangement; faces narrower than ~3 units are not sampled (they are inside the 2-unit band anyway)"},
		func(t *rapid.T) *C01Case { return drawBoolCase(t, drawFamily(t)) }, judgeC01)
}

func TestC01(t *testing.T) { runProp(t, "C01") }
