package props

import (
	"math"
	"testing"

	c2 "github.com/bolom009/go-clipper2"
	"pgregory.net/rapid"

	"verifharness/kit"
)

// C08Case: Minkowski sum / difference of a pattern polygon and a path.
type C08Case struct {
	Pattern Path `json:"pattern"`
	Path    Path `json:"path"`
	Closed  bool `json:"closed"`
	Diff    bool `json:"diff"`
	Extra   []P  `json:"extra"`
}

func drawC08(t *rapid.T) *C08Case {
	c := &C08Case{}
	R := rapid.SampledFrom([]int64{30, 1000, 100000, 1 << 27, 1 << 33, 1 << 40}).Draw(t, "R") // edge products reach 2^63 from 2^32 on
	// rapid favours small magnitudes, which makes thin parallelograms; half the cases
	// hash the drawn values into generic position instead
	spread := rapid.Bool().Draw(t, "spread")
	pt := func(r int64) P {
		q := P{X: rapid.Int64Range(-r, r).Draw(t, "x"), Y: rapid.Int64Range(-r, r).Draw(t, "y")}
		if spread {
			q = P{X: spreadCoord(q.X, r), Y: spreadCoord(q.Y, r)}
		}
		return q
	}
	// pattern: 3-10 vertices, convex (star with equal radii) or arbitrary, either orientation
	np := rapid.IntRange(3, 10).Draw(t, "np")
	pr := max(R/rapid.SampledFrom([]int64{1, 4, 20}).Draw(t, "patScale"), 3)
	if rapid.Bool().Draw(t, "convexPattern") {
		c.Pattern = drawStar(t, 0, 0, float64(pr), float64(pr), "pat")
	} else {
		for i := 0; i < np; i++ {
			c.Pattern = append(c.Pattern, pt(pr))
		}
	}
	if rapid.Bool().Draw(t, "revPattern") {
		c.Pattern = c2.ReversePath(c.Pattern)
	}
	n := rapid.IntRange(1, 8).Draw(t, "n")
	if R <= 1<<27 && R >= 1000 && rapid.IntRange(0, 79).Draw(t, "longPath") == 41 { // (rapid favours small and extreme values: a mid value keeps this rare)
		// a long path (more than 1024 parallelograms in all): a wandering polyline whose steps are
		// about as long as the pattern is wide, so that neighbouring parallelograms overlap and
		// distant ones do not (sizes the statement covers: "any path")
		c.Pattern = drawStar(t, 0, 0, float64(pr), float64(pr), "patL")
		if len(c.Pattern) > 6 {
			c.Pattern = c.Pattern[:6]
		}
		m := 1100/len(c.Pattern) + rapid.IntRange(2, 300).Draw(t, "longN")
		cur := P{}
		dir := rapid.Float64Range(0, 6.28).Draw(t, "longDir")
		for i := 0; i < m; i++ {
			c.Path = append(c.Path, cur)
			dir += rapid.Float64Range(-0.9, 0.9).Draw(t, "longTurn")
			st := float64(pr) * rapid.Float64Range(0.6, 2.5).Draw(t, "longStep")
			cur = P{X: cur.X + int64(st*math.Cos(dir)), Y: cur.Y + int64(st*math.Sin(dir))}
		}
		n = 0
	}
	for i := 0; i < n; i++ {
		switch k := rapid.IntRange(0, 9).Draw(t, "pathPt"); {
		case k == 0 && len(c.Path) > 0:
			c.Path = append(c.Path, c.Path[len(c.Path)-1]) // duplicate
		case k == 1 && len(c.Path) > 1: // collinear continuation
			a, b := c.Path[len(c.Path)-2], c.Path[len(c.Path)-1]
			c.Path = append(c.Path, P{X: clampR(2*b.X-a.X, R), Y: clampR(2*b.Y-a.Y, R)})
		case k == 2 && len(c.Path) > 0: // parallel to a pattern edge: a zero-area parallelogram
			j := rapid.IntRange(0, len(c.Pattern)-1).Draw(t, "parEdge")
			u, v := c.Pattern[j], c.Pattern[(j+1)%len(c.Pattern)]
			m := rapid.Int64Range(-3, 3).Draw(t, "parMul")
			b := c.Path[len(c.Path)-1]
			c.Path = append(c.Path, P{X: clampR(b.X+m*(v.X-u.X), R), Y: clampR(b.Y+m*(v.Y-u.Y), R)})
		default:
			c.Path = append(c.Path, pt(R))
		}
	}
	c.Closed = rapid.Bool().Draw(t, "closed")
	c.Diff = rapid.Bool().Draw(t, "diff")
	for i, m := 0, rapid.IntRange(0, 4).Draw(t, "nExtra"); i < m; i++ {
		c.Extra = append(c.Extra, pt(R+pr))
	}
	return c
}

// minkowskiQuads builds the reference parallelograms from the definition: one per
// (path edge, pattern edge) pair; the closing path edge only when closed.
func minkowskiQuads(pattern, path Path, diff, closed bool) Paths {
	var quads Paths
	np, n := len(pattern), len(path)
	if np == 0 || n == 0 {
		return nil
	}
	sgn := int64(1)
	if diff {
		sgn = -1
	}
	edges := n - 1
	if closed {
		edges = n
	}
	for e := 0; e < edges; e++ {
		a, b := path[e], path[(e+1)%n]
		for j := 0; j < np; j++ {
			u, v := pattern[j], pattern[(j+1)%np]
			quads = append(quads, Path{
				{X: a.X + sgn*u.X, Y: a.Y + sgn*u.Y}, {X: b.X + sgn*u.X, Y: b.Y + sgn*u.Y},
				{X: b.X + sgn*v.X, Y: b.Y + sgn*v.Y}, {X: a.X + sgn*v.X, Y: a.Y + sgn*v.Y}})
		}
	}
	return quads
}

func inAnyQuad(quads Paths, q P) bool {
	for _, qd := range quads {
		if w, on := kit.WindPath(qd, q); w != 0 || on {
			return true
		}
	}
	return false
}

func runMinkowski(pattern, path Path, diff, closed bool) (Paths, []c2.VerifEvent) {
	c2.VerifStartRecording()
	var sol Paths
	if diff {
		sol = c2.MinkowskiDiff64(pattern, path, closed)
	} else {
		sol = c2.MinkowskiSum64(pattern, path, closed)
	}
	return sol, stopRecording()
}

func judgeC08(c *C08Case, cx *Ctx) *Violation {
	sol, evs := runMinkowski(c.Pattern, c.Path, c.Diff, c.Closed)
	if v := canonicalPaths(sol); v != nil {
		return v
	}
	quads := minkowskiQuads(c.Pattern, c.Path, c.Diff, c.Closed)
	probes := kit.Probes([]Paths{quads, sol}, kit.ProbeOpt{Closed: true, Extra: c.Extra, Max: 5000})
	classCache := 0
	nIn, nOut, att := 0, 0, 0
	for _, q := range probes {
		if !kit.FarFrom(q, quads, true, band) {
			continue
		}
		want := inAnyQuad(quads, q)
		w, on := kit.Wind(sol, q)
		if want {
			nIn++
		} else {
			nOut++
		}
		if !on && (w != 0) == want && (w == 0 || w == 1) {
			continue
		}
		if engineExcuse("C08", q, evs, quads, &classCache) {
			att++
			continue
		}
		return violf("Minkowski %s (closed=%v): point %v is in the swept region: %v, but the result has winding %d there (on edge %v); pattern=%v path=%v result=%v",
			sumName(c.Diff), c.Closed, q, want, w, on, c.Pattern, c.Path, sol)
	}
	// for closed paths sum(A,B) and sum(B,A) describe the same region
	if c.Closed && !c.Diff && len(c.Path) >= 3 {
		sol2, evs2 := runMinkowski(c.Path, c.Pattern, false, true)
		quads2 := minkowskiQuads(c.Path, c.Pattern, false, true)
		both := append(append(Paths{}, quads...), quads2...)
		cache2 := 0
		for _, q := range probes {
			if !kit.FarFrom(q, both, true, band) {
				continue
			}
			w1, on1 := kit.Wind(sol, q)
			w2, on2 := kit.Wind(sol2, q)
			if !on1 && !on2 && (w1 != 0) == (w2 != 0) {
				continue
			}
			if engineExcuse("C08", q, append(append([]c2.VerifEvent{}, evs...), evs2...), both, &cache2) {
				att++
				continue
			}
			return violf("MinkowskiSum(A,B) and MinkowskiSum(B,A) differ at %v: winding %d vs %d; A=%v B=%v", q, w1, w2, c.Pattern, c.Path)
		}
	}
	convex := true
	np := len(c.Pattern)
	s0 := 0
	for i := 0; i < np; i++ {
		s := kit.CrossSign(c.Pattern[i], c.Pattern[(i+1)%np], c.Pattern[(i+2)%np])
		if s != 0 {
			if s0 == 0 {
				s0 = s
			} else if s != s0 {
				convex = false
			}
		}
	}
	openSegs := !c.Closed && len(dedupLine(c.Path)) >= 3
	if classCache == 0 {
		classCache = 1
		if in, _ := kit.NearDegenerate([]Paths{quads}, true, nearTol); in {
			classCache = 2
		}
	}
	cx.St.Eval(c, nIn > 0 && nOut > 0 && (!convex || openSegs || c.Closed), "op:"+sumName(c.Diff), boolLabel("quads-near-degenerate", classCache == 2), boolLabel("closed", c.Closed), boolLabel("convex-pattern", convex), pointsLabel(len(c.Path)), magnitudeLabel(Paths{c.Pattern, c.Path}), boolLabel("more-than-1024-parallelograms", len(quads) > 1024))
	cx.St.Count("mismatch_attributed_to_listed_engine_finding", int64(att))
	return nil
}

func sumName(diff bool) string {
	if diff {
		return "diff"
	}
	return "sum"
}

func init() {
	defProp("C08",
		"rapid-generated pattern polygons (3-10 vertices, convex stars or arbitrary, either orientation, extent 3 .. 2^27, 2^33, 2^40) x paths of 1-8 points (duplicates, collinear continuations, edges parallel to a pattern edge; rarely a wandering path of 190-580 points giving more than 1024 parallelograms) x closed/open x sum/diff; oracle built from the definition: the swept region is the union of the parallelograms (path edge) + (pattern edge) (pattern negated for diff; closing edge only when closed), membership by exact winding per parallelogram; probes farther than 2.001 from every parallelogram edge must agree with the result's winding (which must be 0 or 1); closed paths: sum(A,B) vs sum(B,A) at probes clear of both edge sets; result canonical; non-trivial = probes inside and outside, and a non-convex pattern / open path with >= 2 segments / closed path",
		[]string{"coordinates stay below 2^28 so every sum is in range"},
		drawC08, judgeC08)
}

func TestC08(t *testing.T) { runProp(t, "C08") }

// magnitudeLabel buckets the largest coordinate magnitude (2^31.5 is where a product of two
// coordinate differences leaves int64).
func magnitudeLabel(ps Paths) string {
	var m int64
	for _, p := range ps {
		for _, v := range p {
			m = max(m, abs64(v.X), abs64(v.Y))
		}
	}
	switch {
	case m < 1<<20:
		return "magnitude:<2^20"
	case m < 1<<31:
		return "magnitude:2^20..2^31"
	}
	return "magnitude:>=2^31"
}
