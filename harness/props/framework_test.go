// Package props holds one generated check per listed property (C01..C19): rapid
// generators, the oracle ("judge") and the replay entry point.
package props

import (
	"encoding/json"
	"fmt"
	"os"
	"path/filepath"
	"runtime/debug"
	"sort"
	"strings"
	"testing"
	"time"

	"pgregory.net/rapid"

	"verifharness/kit"
)

// Violation is a counter-example verdict of a judge.
type Violation struct {
	Msg string `json:"msg"`
}

func violf(format string, a ...any) *Violation { return &Violation{Msg: fmt.Sprintf(format, a...)} }

// Ctx is what a judge may use besides the case itself.
type Ctx struct {
	St *kit.Stats
}

type propDef struct {
	id          string
	rule        string
	assumptions []string
	run         func(rt *rapid.T, cx *Ctx)
	replay      func(raw json.RawMessage, cx *Ctx) (*Violation, error)
}

var registry = map[string]*propDef{}

// defProp registers a property: draw builds a JSON-serialisable case from rapid,
// judge is a pure function of the case (no clock, no RNG, no map-order dependence).
func defProp[C any](id, rule string, assumptions []string, draw func(*rapid.T) *C, judge func(*C, *Ctx) *Violation) {
	safe := func(c *C, cx *Ctx) (v *Violation) {
		if journalOn && outDir != "" && id != "C18" {
			// second pass after a fatal runtime error (see rerunWithJournal in the driver)
			raw, _ := json.Marshal(c)
			b, _ := json.Marshal(failureFile{Property: id, Msg: "journal", Case: raw})
			_ = os.WriteFile(filepath.Join(outDir, "journal."+shardTag+".json"), b, 0o644)
		}
		if id != "C03" && id != "C13" && id != "C18" { // those arm it themselves / run under -race
			watchdogArmFor(id, c, 90*time.Second)
			defer watchdogDisarm()
		}
		defer func() {
			if e := recover(); e != nil {
				v = violf("panic in library or oracle: %v\n%s", e, trimStack(debug.Stack()))
			}
		}()
		return judge(c, cx)
	}
	registry[id] = &propDef{
		id: id, rule: rule, assumptions: assumptions,
		run: func(rt *rapid.T, cx *Ctx) {
			c := draw(rt)
			if v := safe(c, cx); v != nil {
				if isKnownInput(id, c) {
					cx.St.Count("known_input_finding_hits", 1)
					return
				}
				persistFailure(id, c, v)
				rt.Fatalf("%s: %s", id, v.Msg)
			}
		},
		replay: func(raw json.RawMessage, cx *Ctx) (*Violation, error) {
			c := new(C)
			if err := json.Unmarshal(raw, c); err != nil {
				return nil, err
			}
			return safe(c, cx), nil
		},
	}
}

func trimStack(b []byte) string {
	s := string(b)
	if len(s) > 2500 {
		s = s[:2500] + "..."
	}
	return s
}

// ---------------------------------------------------------------------------------
// process-level state

var (
	curStats *kit.Stats
	outDir   = os.Getenv("VERIF_OUT")
	shardTag = envOr("VERIF_SHARD", "0")
	// journalOn: write every case to disk before judging it (set by the driver when it repeats a
	// shard whose process was killed by the Go runtime)
	journalOn = os.Getenv("VERIF_JOURNAL") != ""
)

func envOr(k, d string) string {
	if v := os.Getenv(k); v != "" {
		return v
	}
	return d
}

type failureFile struct {
	Property string          `json:"property"`
	Msg      string          `json:"msg"`
	Case     json.RawMessage `json:"case"`
}

func persistFailure(id string, c any, v *Violation) {
	if outDir == "" {
		return
	}
	raw, _ := json.Marshal(c)
	b, _ := json.MarshalIndent(failureFile{Property: id, Msg: v.Msg, Case: raw}, "", " ")
	_ = os.WriteFile(filepath.Join(outDir, "failure."+shardTag+".json"), b, 0o644)
}

// runProp is what TestCxx calls.
func runProp(t *testing.T, id string) {
	p := registry[id]
	if p == nil {
		t.Fatalf("unknown property %s", id)
	}
	if curStats == nil || curStats.Property != id {
		curStats = kit.NewStats(id)
	}
	cx := &Ctx{St: curStats}
	rapid.Check(t, func(rt *rapid.T) { p.run(rt, cx) })
}

type statsMeta struct {
	Rule        string   `json:"rule"`
	Assumptions []string `json:"assumptions"`
}

// ---------------------------------------------------------------------------------
// known findings (read-only at run time)

type knownFinding struct {
	ID       string   `json:"id"`
	Property string   `json:"property"`
	Status   string   `json:"status"` // "known" | "fixed"
	Kind     string   `json:"kind"`   // "input" | "callsite" | "class"
	Key      string   `json:"key"`    // e.g. "callsite:join"
	What     string   `json:"what"`
	Commit   string   `json:"commit,omitempty"`
	Witness  []string `json:"witness"`
}

var (
	kfActiveKeys   = map[string]bool{} // "C01|callsite:join"
	kfInputHashes  = map[string]map[uint64]bool{}
	kfLoadedFromFS = false
)

func loadKnownFindings() {
	path := envOr("VERIF_KF", "/verif/known_findings.json")
	b, err := os.ReadFile(path)
	if err != nil {
		return
	}
	var doc struct {
		Findings []knownFinding `json:"findings"`
	}
	if json.Unmarshal(b, &doc) != nil {
		return
	}
	kfLoadedFromFS = true
	root := filepath.Dir(path)
	var keepOnly map[string]bool // VERIF_KF_KEEP: excuse nothing but these keys (witness replays)
	if k := os.Getenv("VERIF_KF_KEEP"); k != "" {
		keepOnly = map[string]bool{}
		for _, s := range strings.Split(k, ",") {
			keepOnly[s] = true
		}
	}
	for _, f := range doc.Findings {
		if f.Status != "known" {
			continue
		}
		if keepOnly != nil && !keepOnly[f.Key] {
			continue
		}
		if f.Key != "" {
			kfActiveKeys[f.Property+"|"+f.Key] = true
		}
		if f.Kind == "input" {
			for _, w := range f.Witness {
				wb, err := os.ReadFile(filepath.Join(root, w))
				if err != nil {
					continue
				}
				var ff failureFile
				if json.Unmarshal(wb, &ff) != nil {
					continue
				}
				// normalise through a generic decode so that formatting does not matter
				anyv, ok := decodeGeneric(ff.Case)
				if !ok {
					continue
				}
				if kfInputHashes[f.Property] == nil {
					kfInputHashes[f.Property] = map[uint64]bool{}
				}
				kfInputHashes[f.Property][hashGeneric(anyv)] = true
			}
		}
	}
}

// kfActive reports whether a known finding with this key is listed for the property.
func kfActive(prop, key string) bool { return kfActiveKeys[prop+"|"+key] }

func hashGeneric(v any) uint64 {
	return kit.Hash(canonJSON(v))
}

// canonJSON re-encodes through generic maps (sorted keys) so two spellings of one case agree.
func canonJSON(v any) string {
	var sb strings.Builder
	var w func(any)
	w = func(x any) {
		switch t := x.(type) {
		case map[string]any:
			keys := make([]string, 0, len(t))
			for k := range t {
				keys = append(keys, k)
			}
			sort.Strings(keys)
			sb.WriteByte('{')
			for _, k := range keys {
				sb.WriteString(k)
				sb.WriteByte(':')
				w(t[k])
				sb.WriteByte(',')
			}
			sb.WriteByte('}')
		case []any:
			sb.WriteByte('[')
			for _, e := range t {
				w(e)
				sb.WriteByte(',')
			}
			sb.WriteByte(']')
		default:
			b, _ := json.Marshal(t)
			sb.Write(b)
		}
	}
	w(v)
	return sb.String()
}

func isKnownInput(prop string, c any) bool {
	hs := kfInputHashes[prop]
	if len(hs) == 0 {
		return false
	}
	b, _ := json.Marshal(c)
	anyv, ok := decodeGeneric(b)
	if !ok {
		return false
	}
	return hs[hashGeneric(anyv)]
}

// decodeGeneric decodes JSON keeping integers exact (json.Number).
func decodeGeneric(b []byte) (any, bool) {
	d := json.NewDecoder(strings.NewReader(string(b)))
	d.UseNumber()
	var v any
	if d.Decode(&v) != nil {
		return nil, false
	}
	return v, true
}
