package props

import (
	"fmt"

	c2 "github.com/bolom009/go-clipper2"

	"verifharness/kit"
)

const band = 2.001 // "more than 2 units": float distance guard on the safe side

// nearTol is the tolerance of the input-class predicate kit.NearDegenerate.
const nearTol = 1.5

// runBoolean executes one boolean operation through the chosen entry point while the
// event recorder is on. entry: 0 BooleanOpPaths64, 1 the named wrapper, 2 an engine
// object with the paths added one path per AddPaths call.
func runBoolean(entry int, ct c2.ClipType, fr c2.FillRule, subj, clip Paths) (sol Paths, evs []c2.VerifEvent) {
	c2.VerifStartRecording()
	defer func() { evs = stopRecording() }()
	switch entry {
	case 1:
		switch {
		case ct == c2.Union && clip == nil:
			sol = c2.UnionPaths64(subj, fr)
		case ct == c2.Union:
			sol = c2.UnionWithClipPaths64(subj, clip, fr)
		case ct == c2.Intersection:
			sol = c2.IntersectWithClipPaths64(subj, clip, fr)
		case ct == c2.Difference:
			sol = c2.DifferenceWithClipPaths64(subj, clip, fr)
		default:
			sol = c2.XorWithClipPaths64(subj, clip, fr)
		}
	case 2:
		c := c2.NewClipper64()
		for _, p := range subj {
			c.AddPaths(Paths{p}, c2.Subject, false)
		}
		for _, p := range clip {
			c.AddPaths(Paths{p}, c2.Clip, false)
		}
		sol = Paths{}
		if !c.Execute(ct, fr, &sol) {
			panic("Execute returned false")
		}
	case 4:
		// the single-path entry point AddPath (it keeps its own bookkeeping: seeded change C01-F)
		c := c2.NewClipper64()
		for _, p := range subj {
			c.AddPath(p, c2.Subject, false)
		}
		for _, p := range clip {
			c.AddPath(p, c2.Clip, false)
		}
		sol = Paths{}
		if !c.Execute(ct, fr, &sol) {
			panic("Execute returned false")
		}
	case 3:
		// a reused engine: another operation is executed first, then the one under test
		c := c2.NewClipper64()
		c.AddPaths(subj, c2.Subject, false)
		if clip != nil {
			c.AddPaths(clip, c2.Clip, false)
		}
		first := Paths{}
		c.Execute(allClipTypes[(int(ct)+1)%4], allFillRules[(int(fr)+1)%4], &first)
		stopRecording()
		c2.VerifStartRecording() // only the events of the execution under test are attributed
		sol = Paths{}
		if !c.Execute(ct, fr, &sol) {
			panic("Execute returned false")
		}
	default:
		sol = c2.BooleanOpPaths64(ct, subj, clip, fr)
	}
	return sol, evs
}

// attribute returns the kind of a recorded discard/join event whose polygon contains q
// (or passes within 2.5 units of it), "" if none.
func attribute(q P, evs []c2.VerifEvent) string {
	for _, ev := range evs {
		if ev.Kind != "split-drop-path" && ev.Kind != "split-drop-tri" && ev.Kind != "split-drop-cross" && ev.Kind != "join" {
			continue // e.g. "offset-raw": an observation, not a discard site
		}
		ps := Paths{ev.Pts}
		if w, on := kit.Wind(ps, q); w != 0 || on || kit.MinDist(q, ps, true) <= 2.5 {
			return ev.Kind
		}
	}
	return ""
}

// stopRecording ends hook recording and classifies the discards of the self-intersection
// repair. A "split-drop-tri" event carries the discarded triangle (ip, splitOp, splitOp.next)
// and the outer end points of the two crossing segments A = prevOp-splitOp and
// B = splitOp.next-nextNextOp. Listed finding F29 is the upstream rule applied to a ring that
// *touches* itself (a vertex lying on another edge of the ring) and is turned into a hair
// crossing by the rounding of some other vertex: there an end point of one segment lies
// within 1.5 units of the other segment. A crossing clear of all four end points is a ring
// that really crosses itself - the sweep ordered its edges wrongly - and is reported under
// the kind "split-drop-cross", which no listed finding covers.
func stopRecording() []c2.VerifEvent {
	evs := c2.VerifStopRecording()
	for i := range evs {
		e := &evs[i]
		if e.Kind != "split-drop-tri" || len(e.Pts) != 5 {
			continue
		}
		ip, so, sn, pv, nn := e.Pts[0], e.Pts[1], e.Pts[2], e.Pts[3], e.Pts[4]
		_ = ip
		touch := kit.DistSeg(pv, sn, nn) <= touchTol || kit.DistSeg(nn, pv, so) <= touchTol ||
			kit.DistSeg(so, sn, nn) <= touchTol || kit.DistSeg(sn, pv, so) <= touchTol
		if !touch {
			e.Kind = "split-drop-cross"
		}
		e.Pts = e.Pts[:3:3]
	}
	return evs
}

const touchTol = 1.5

func kfKeyForEvent(kind string) string {
	switch kind {
	case "split-drop-path", "split-drop-tri":
		return "callsite:split-drop"
	case "join":
		return "callsite:join"
	}
	return "callsite:" + kind
}

type regionStats struct {
	judged, inside, outside, attributed, attributedClass int
}

// judgeRegion compares the solution region with the exact boolean combination at every
// probe farther than the band from all input edges. prop is the property id used to look
// up listed call-site findings.
func judgeRegion(prop string, subj, clip Paths, ct c2.ClipType, fr c2.FillRule, sol Paths, evs []c2.VerifEvent, probes []P) (*Violation, regionStats) {
	var rs regionStats
	inputs := append(append(Paths{}, subj...), clip...)
	classKnown, inClass, classWhy := false, false, ""
	_ = classWhy
	for _, q := range probes {
		if !kit.FarFrom(q, inputs, true, band) {
			continue
		}
		rs.judged++
		ws, _ := kit.Wind(subj, q)
		wc, _ := kit.Wind(clip, q)
		want := kit.BoolOp(ct, kit.Fill(fr, ws), kit.Fill(fr, wc))
		if want {
			rs.inside++
		} else {
			rs.outside++
		}
		wsol, on := kit.Wind(sol, q)
		if !on && (wsol != 0) == want {
			continue
		}
		if k := attribute(q, evs); k != "" && kfActive(prop, kfKeyForEvent(k)) {
			rs.attributed++
			continue
		}
		if !classKnown {
			classKnown = true
			inClass, classWhy = kit.NearDegenerate([]Paths{inputs}, true, nearTol)
		}
		if inClass && kfActive(prop, "class:near-degenerate") {
			rs.attributedClass++
			continue
		}
		return violf("region mismatch at %v: want inside=%v (wind subj=%d clip=%d, %s/%s) but solution winding=%d onSolutionEdge=%v; solution=%v events=%s",
			q, want, ws, wc, ctName(ct), frName(fr), wsol, on, sol, fmtEvents(evs)), rs
	}
	return nil, rs
}

func fmtEvents(evs []c2.VerifEvent) string {
	// "join" events are bookkeeping of the (repaired) join defect F6; only discards are shown
	var shown []c2.VerifEvent
	joins := 0
	for _, e := range evs {
		if e.Kind == "join" {
			joins++
			continue
		}
		shown = append(shown, e)
	}
	evs = shown
	s := fmt.Sprintf("[(%d join events)", joins)
	for i, e := range evs {
		if i > 5 {
			s += fmt.Sprintf(" ...%d more", len(evs)-i)
			break
		}
		s += fmt.Sprintf(" %s%v", e.Kind, e.Pts)
	}
	return s + " ]"
}

// hasInteraction reports whether the closed paths contain a proper edge crossing or an
// exact coincidence (shared vertex, vertex on another edge, collinear overlap) between
// non-adjacent edges: the rule that makes a boolean case non-trivial.
func hasInteraction(all Paths) bool {
	type seg struct {
		a, b   P
		pi, ei int
		n      int
	}
	var segs []seg
	for pi, p := range all {
		n := len(p)
		if n < 2 {
			continue
		}
		for i := 0; i < n; i++ {
			a, b := p[i], p[(i+1)%n]
			if a != b {
				segs = append(segs, seg{a, b, pi, i, n})
			}
		}
	}
	if len(segs) > 600 {
		return true // large inputs: assume (C19 large family); avoids O(n^2)
	}
	for i := 0; i < len(segs); i++ {
		for j := i + 1; j < len(segs); j++ {
			s, t := segs[i], segs[j]
			if s.pi == t.pi {
				d := t.ei - s.ei
				if d == 1 || d == s.n-1 || d == 0 {
					continue // adjacent edges share a vertex by construction
				}
			}
			if kit.SegsTouch(s.a, s.b, t.a, t.b) {
				return true
			}
		}
	}
	return false
}

// rawOffsetPaths extracts the raw offset curves recorded by the offset-raw hook.
func rawOffsetPaths(evs []c2.VerifEvent) Paths {
	var ps Paths
	for _, e := range evs {
		if e.Kind == "offset-raw" {
			ps = append(ps, e.Pts)
		}
	}
	return ps
}

// engineExcuse decides whether a mismatch at q of an operation that ends in an internal
// union (offsetting, Minkowski) falls under a listed engine finding: a lobe discarded by
// the self-intersection repair (F29, by call site) or a near-degenerate union input (F30,
// class predicate evaluated on the raw curves the union really received).
func engineExcuse(prop string, q P, evs []c2.VerifEvent, raw Paths, cache *int) bool {
	if k := attribute(q, evs); k != "" && kfActive(prop, kfKeyForEvent(k)) {
		return true
	}
	if !kfActive(prop, "class:near-degenerate") {
		return false
	}
	if *cache == 0 {
		*cache = 1
		if in, _ := kit.NearDegenerate([]Paths{raw}, true, nearTol); in {
			*cache = 2
		}
	}
	return *cache == 2
}
