package props

import (
	"math"
	"math/big"
	"testing"

	c2 "github.com/bolom009/go-clipper2"
	"pgregory.net/rapid"

	"verifharness/kit"
)

// C04Case: a boolean operation executed in PolyTree form.
type C04Case struct {
	C01Case
	Variant string `json:"variant"` // func64 | engine64 | funcD | engineD
	Prec    int    `json:"prec"`    // D variants
}

// drawNested draws nested boxes / diamonds (depth <= 6) with islands and touching siblings.
func drawNested(t *rapid.T, f Family) Paths {
	step := f.Step
	if step == 0 {
		step = max(f.R/16, 1)
	}
	var ps Paths
	groups := rapid.IntRange(1, 3).Draw(t, "groups")
	for g := 0; g < groups; g++ {
		cx := rapid.Int64Range(-4, 4).Draw(t, "cx") * step
		cy := rapid.Int64Range(-4, 4).Draw(t, "cy") * step
		depth := rapid.IntRange(1, 6).Draw(t, "depth")
		for d := 0; d < depth; d++ {
			h := int64(7-d) * step // half size
			if h <= 0 {
				break
			}
			var p Path
			if rapid.IntRange(0, 3).Draw(t, "diamond") == 0 && h%2 == 0 {
				p = Path{{X: cx - h, Y: cy}, {X: cx, Y: cy - h}, {X: cx + h, Y: cy}, {X: cx, Y: cy + h}}
			} else {
				ox := rapid.Int64Range(-1, 1).Draw(t, "ox") * step * int64(min(d, 1)) // touching the parent's edge when shifted
				p = Path{{X: cx - h + ox, Y: cy - h}, {X: cx + h + ox, Y: cy - h}, {X: cx + h + ox, Y: cy + h}, {X: cx - h + ox, Y: cy + h}}
			}
			if rapid.Bool().Draw(t, "rev") {
				p = c2.ReversePath(p)
			}
			ps = append(ps, p)
		}
	}
	return ps
}

// drawTipsAndBars draws 2-7 well separated shapes whose vertices share Y levels without sharing
// edges: axis-parallel bars (horizontal edges on two levels, every level used by one bar only) and
// pointed polygons (stars / chevrons with generic X, some vertices - the tips - exactly on a level,
// no horizontal edge). Islands in pockets and holes in spikes then have a horizontal edge exactly at
// the height of a tip of their neighbour: the containment tests that build the tree meet ring
// vertices lying exactly on the scanline of the tested point (seeded change C04-E), while no input
// edges coincide and nothing touches.
func drawTipsAndBars(t *rapid.T) Paths {
	const step = 100
	levels := []int64{0, 1, 2, 3, 4, 5, 6, 7, 8, 9}
	// shuffle the levels for the bars (each level carries at most one bar edge)
	for i := len(levels) - 1; i > 0; i-- {
		j := rapid.IntRange(0, i).Draw(t, "lvShuffle")
		levels[i], levels[j] = levels[j], levels[i]
	}
	var ps Paths
	n := rapid.IntRange(2, 7).Draw(t, "tbShapes")
	bars := 0
	for k := 0; k < n; k++ {
		var p Path
		if rapid.IntRange(0, 2).Draw(t, "tbKind") == 0 && bars < 4 {
			y0, y1 := levels[2*bars]*step, levels[2*bars+1]*step
			bars++
			if y0 > y1 {
				y0, y1 = y1, y0
			}
			x0 := rapid.Int64Range(-50, 900).Draw(t, "barX")
			w := rapid.Int64Range(30, 700).Draw(t, "barW")
			p = Path{{X: x0, Y: y0}, {X: x0 + w, Y: y0}, {X: x0 + w, Y: y1}, {X: x0, Y: y1}}
		} else {
			cx := rapid.Int64Range(0, 1000).Draw(t, "ptCx")
			cy := rapid.Int64Range(0, 900).Draw(t, "ptCy")
			m := rapid.IntRange(3, 9).Draw(t, "ptN")
			for i := 0; i < m; i++ {
				ang := (float64(i) + rapid.Float64Range(0.1, 0.9).Draw(t, "ptA")) * 2 * math.Pi / float64(m)
				r := rapid.Float64Range(60, 600).Draw(t, "ptR")
				v := P{X: cx + int64(r*math.Cos(ang)), Y: cy + int64(r*math.Sin(ang))}
				if rapid.IntRange(0, 9).Draw(t, "ptSnap") < 6 {
					v.Y = (v.Y + step/2) / step * step // a tip exactly on a level
				} else if v.Y%step == 0 {
					v.Y += 37
				}
				if len(p) > 0 && p[len(p)-1].Y == v.Y {
					v.Y += 13 // no horizontal edges in pointed shapes
				}
				p = append(p, v)
			}
			if len(p) > 1 && p[0].Y == p[len(p)-1].Y {
				p[len(p)-1].Y += 13
			}
		}
		if rapid.Bool().Draw(t, "tbRev") {
			p = c2.ReversePath(p)
		}
		ps = append(ps, p)
	}
	return ps
}

func drawC04(t *rapid.T) *C04Case {
	f := drawFamily(t)
	if rapid.IntRange(0, 5).Draw(t, "tipsAndBars") == 0 {
		all := drawTipsAndBars(t)
		c := &C04Case{C01Case: C01Case{Fam: Family{Kind: "tips-and-bars", R: 2000}}}
		k := rapid.IntRange(1, len(all)).Draw(t, "tbSplit")
		c.Subj, c.Clip = all[:k], all[k:]
		c.CT = rapid.SampledFrom(allClipTypes).Draw(t, "ct")
		c.FR = rapid.SampledFrom(allFillRules).Draw(t, "fr")
		c.Variant = rapid.SampledFrom([]string{"func64", "engine64", "funcD", "engineD"}).Draw(t, "variant")
		c.Prec = rapid.SampledFrom([]int{2, 1, -1, 3, -2}).Draw(t, "prec")
		return c
	}
	c := &C04Case{C01Case: *drawBoolCase(t, f)}
	c.Entry = 0
	if rapid.IntRange(0, 3).Draw(t, "many") == 0 {
		// many overlapping paths: rings that are cut several times and holes whose container
		// is reachable only through a chain of split pieces
		c.Subj = drawClosedPaths(t, f, 4, 10, "subjMany")
	}
	if rapid.IntRange(0, 2).Draw(t, "nested") == 0 {
		c.Subj = append(c.Subj, drawNested(t, f)...)
		if rapid.Bool().Draw(t, "nestedClip") && c.Clip != nil {
			c.Clip = append(c.Clip, drawNested(t, f)...)
		}
	}
	c.Variant = rapid.SampledFrom([]string{"func64", "engine64", "funcD", "engineD"}).Draw(t, "variant")
	c.Prec = rapid.SampledFrom([]int{2, 1, -1, 3, -2}).Draw(t, "prec")
	if c.Fam.R > 1000000 {
		c.Prec = min(c.Prec, 1)
	}
	return c
}

type treeNode struct {
	poly     Path
	level    int
	isHole   bool
	parent   int // index into nodes, -1 = root
	children []int
	a2       *big.Int
}

func flattenTree(root *c2.PolyPathBase) []treeNode {
	var nodes []treeNode
	var walk func(n *c2.PolyPathBase, parent int)
	walk = func(n *c2.PolyPathBase, parent int) {
		for _, ch := range n.GetChildren() {
			idx := len(nodes)
			nodes = append(nodes, treeNode{poly: ch.Polygon(), level: ch.Level(), isHole: ch.IsHole(), parent: parent, a2: kit.Area2(ch.Polygon())})
			if parent >= 0 {
				nodes[parent].children = append(nodes[parent].children, idx)
			}
			walk(ch, idx)
		}
	}
	walk(root, -1)
	return nodes
}

func isDescendant(nodes []treeNode, q, n int) bool {
	for p := nodes[q].parent; p >= 0; p = nodes[p].parent {
		if p == n {
			return true
		}
	}
	return false
}

func judgeC04(c *C04Case, cx *Ctx) *Violation {
	var root *c2.PolyPathBase
	var flat Paths
	subj, clip := c.Subj, c.Clip
	scaleWant := 0.0
	c2.VerifStartRecording()
	switch c.Variant {
	case "func64":
		root = c2.BooleanOpPolyTree64(c.CT, subj, clip, c.FR).PolyPathBase
	case "engine64":
		e := c2.NewClipper64()
		e.AddPaths(subj, c2.Subject, false)
		if clip != nil {
			e.AddPaths(clip, c2.Clip, false)
		}
		tr := c2.NewPolyTree64()
		op := c2.PathsD{}
		if !e.ExecutePolyTree64(c.CT, c.FR, tr, &op) {
			stopRecording()
			return violf("ExecutePolyTree64 returned false")
		}
		root = tr.PolyPathBase
	default:
		// D variants: inputs are the integers divided by 10^prec; the nodes store the scaled Path64
		div := math.Pow(10, float64(c.Prec))
		sd := pathsToD(subj, div)
		var cd c2.PathsD
		if clip != nil {
			cd = pathsToD(clip, div)
		}
		scaleWant = div
		if c.Variant == "funcD" {
			root = c2.BooleanOpPolyTreeD(c.CT, sd, cd, c.FR, c.Prec).PolyPathBase
		} else {
			e := c2.NewClipperD(c.Prec)
			e.AddPaths(sd, c2.Subject, false)
			if clip != nil {
				e.AddPaths(cd, c2.Clip, false)
			}
			tr := c2.NewPolyTreeD()
			op := c2.PathsD{}
			if !e.ExecutePolyTreeD(c.CT, c.FR, tr, &op) {
				stopRecording()
				return violf("ExecutePolyTreeD returned false")
			}
			root = tr.PolyPathBase
		}
		// what the engine really saw: the library's own quantisation of the D inputs
		subj = c2.ScalePathsDToPaths64(sd, div)
		if clip != nil {
			clip = c2.ScalePathsDToPaths64(cd, div)
		}
	}
	evs := stopRecording()
	flat = c2.BooleanOpPaths64(c.CT, subj, clip, c.FR)
	if scaleWant != 0 && root.Scale() != scaleWant {
		return violf("PolyTreeD root Scale() = %v, expected 10^%d", root.Scale(), c.Prec)
	}
	if len(root.Polygon()) != 0 {
		return violf("the root of the tree has a polygon: %v", root.Polygon())
	}
	nodes := flattenTree(root)
	polys := make(Paths, len(nodes))
	for i, n := range nodes {
		polys[i] = n.poly
	}
	inputs := append(append(Paths{}, subj...), clip...)
	inClass, why := kit.NearDegenerate([]Paths{inputs}, true, nearTol)
	classOK := inClass && kfActive("C04", "class:near-degenerate")
	excuse := func(q P) bool {
		if classOK {
			cx.St.Count("mismatch_attributed_to_listed_class", 1)
			return true
		}
		if k := attribute(q, evs); k != "" && kfActive("C04", kfKeyForEvent(k)) {
			cx.St.Count("mismatch_attributed_to_listed_callsite", 1)
			return true
		}
		return false
	}
	coincident := hasCoincidentEdges(inputs)
	coincidentOK := coincident && kfActive("C04", "class:coincident-input-edges")
	// listed finding F32: a polygon that touches another one (common boundary point) may be
	// nested under / beside it wrongly. i = node, other = expected parent (-1 root, -2 unknown).
	touchExcuse := func(i, other int) bool {
		if coincidentOK {
			cx.St.Count("mismatch_attributed_to_listed_class_coincident_edges", 1)
			return true
		}
		if !kfActive("C04", "class:touching-polygons") {
			return false
		}
		for j := range nodes {
			if j != i && (j == nodes[i].parent || j == other || nodes[i].parent < 0 || other == -2) && touches(nodes[i].poly, nodes[j].poly) {
				cx.St.Count("mismatch_attributed_to_listed_class_touching", 1)
				return true
			}
		}
		return false
	}
	// (a) same polygons as the flat result, each exactly once
	if v := sameMultiset(polys, flat); v != "" {
		if !(classOK || (len(evs) > 0 && kfActive("C04", "callsite:split-drop") && hasEvent(evs, "split-drop"))) {
			return violf("tree polygons and flat paths differ (%s): tree=%v flat=%v", v, polys, flat)
		}
		cx.St.Count("multiset_difference_attributed", 1)
	}
	// (c) IsHole <=> negative orientation <=> even level >= 2
	for i, n := range nodes {
		if n.level < 1 {
			return violf("node %d reports level %d", i, n.level)
		}
		wantHole := n.level%2 == 0
		if n.isHole != wantHole {
			return violf("node %d at level %d reports IsHole()=%v", i, n.level, n.isHole)
		}
		if s := n.a2.Sign(); s != 0 && (s < 0) != n.isHole {
			if excuse(n.poly[0]) || touchExcuse(i, -2) {
				continue
			}
			return violf("node %d (level %d, IsHole()=%v) has doubled area %v: orientation and nesting level disagree; polygon=%v; tree=%v", i, n.level, n.isHole, n.a2, n.poly, describeTree(nodes))
		}
	}
	// (b)+(d) nesting: an interior probe of a node (inside the node, in none of its
	// children, more than 2 units from every tree edge) determines its proper parent:
	// the smallest-area non-descendant polygon that contains the probe, or the root.
	probes := kit.Probes([]Paths{polys}, kit.ProbeOpt{Closed: true, Extra: c.Extra, Max: 3000})
	judgedNodes := 0
	maxLevel := 0
	for i, n := range nodes {
		maxLevel = max(maxLevel, n.level)
		// every vertex of the node lies inside its parent or within 2 units of it
		if n.parent >= 0 {
			pp := Paths{nodes[n.parent].poly}
			for _, v := range n.poly {
				if w, on := kit.Wind(pp, v); w == 0 && !on && kit.MinDist(v, pp, true) > band {
					if excuse(v) || touchExcuse(i, -2) {
						break
					}
					return violf("vertex %v of node %d lies more than 2 units outside its parent's polygon %v; tree=%v", v, i, nodes[n.parent].poly, describeTree(nodes))
				}
			}
		}
		for _, q := range probes {
			if w, on := kit.WindPath(n.poly, q); w == 0 || on {
				continue
			}
			if !kit.FarFrom(q, polys, true, band) {
				continue
			}
			inChild := false
			for _, ch := range n.children {
				if w, _ := kit.WindPath(nodes[ch].poly, q); w != 0 {
					inChild = true
					break
				}
			}
			if inChild {
				continue
			}
			// q is an interior probe of node i
			best := -1
			for j, m := range nodes {
				if j == i || isDescendant(nodes, j, i) {
					continue
				}
				if w, _ := kit.WindPath(m.poly, q); w != 0 {
					if best < 0 || new(big.Int).Abs(m.a2).Cmp(new(big.Int).Abs(nodes[best].a2)) < 0 {
						best = j
					}
				}
			}
			judgedNodes++
			if best != n.parent {
				if excuse(q) || touchExcuse(i, best) {
					break
				}
				return violf("node %d (level %d, polygon %v) has parent %d but its interior point %v lies in the innermost containing polygon %d (-1 = none/root); tree=%v events=%s",
					i, n.level, n.poly, n.parent, q, best, describeTree(nodes), fmtEvents(evs))
			}
			break // one interior probe per node is enough
		}
	}
	holes := 0
	for _, n := range nodes {
		if n.isHole {
			holes++
		}
	}
	dom := "domain:strict"
	if inClass {
		dom = "domain:near-degenerate(" + why + ")"
	}
	depth := "depth:1"
	switch {
	case maxLevel == 0:
		depth = "depth:0"
	case maxLevel == 2:
		depth = "depth:2"
	case maxLevel >= 3:
		depth = "depth:3+"
	}
	if coincident && !inClass {
		dom = "domain:coincident-input-edges"
	}
	cx.St.Eval(c, maxLevel >= 2 && holes > 0 && len(nodes) >= 3, c.Fam.Label(), "variant:"+c.Variant, depth, dom, "op:"+ctName(c.CT)+"/"+frName(c.FR))
	cx.St.Count("nodes", int64(len(nodes)))
	cx.St.Count("nodes_with_interior_probe_judged", int64(judgedNodes))
	return nil
}

// touches: the two polygons have a boundary point in common (a vertex of one lies exactly on
// the boundary of the other) - the identification of listed finding F32.
func touches(p, q Path) bool {
	for _, v := range p {
		if _, on := kit.WindPath(q, v); on {
			return true
		}
	}
	for _, v := range q {
		if _, on := kit.WindPath(p, v); on {
			return true
		}
	}
	return false
}

// hasCoincidentEdges: two distinct input edges are collinear and overlap in a segment of
// positive length (identification of listed finding F38).
func hasCoincidentEdges(ps Paths) bool {
	type seg struct{ a, b P }
	var segs []seg
	for _, p := range ps {
		for i := range p {
			a, b := p[i], p[(i+1)%len(p)]
			if a != b {
				segs = append(segs, seg{a, b})
			}
		}
	}
	if len(segs) > 3000 {
		return false
	}
	for i := range segs {
		for j := i + 1; j < len(segs); j++ {
			s, t := segs[i], segs[j]
			if kit.CrossSign(s.a, s.b, t.a) != 0 || kit.CrossSign(s.a, s.b, t.b) != 0 {
				continue
			}
			var lo1, hi1, lo2, hi2 int64
			if abs64(s.b.X-s.a.X) >= abs64(s.b.Y-s.a.Y) {
				lo1, hi1, lo2, hi2 = min(s.a.X, s.b.X), max(s.a.X, s.b.X), min(t.a.X, t.b.X), max(t.a.X, t.b.X)
			} else {
				lo1, hi1, lo2, hi2 = min(s.a.Y, s.b.Y), max(s.a.Y, s.b.Y), min(t.a.Y, t.b.Y), max(t.a.Y, t.b.Y)
			}
			if max(lo1, lo2) < min(hi1, hi2) {
				return true
			}
		}
	}
	return false
}

func hasEvent(evs []c2.VerifEvent, prefix string) bool {
	for _, e := range evs {
		if len(e.Kind) >= len(prefix) && e.Kind[:len(prefix)] == prefix {
			return true
		}
	}
	return false
}

func describeTree(nodes []treeNode) string {
	s := ""
	for i, n := range nodes {
		if i > 12 {
			s += " ..."
			break
		}
		s += "\n   #" + itoa(i) + " parent=" + itoa(n.parent) + " level=" + itoa(n.level) + " area2=" + n.a2.String() + " " + pathStr(n.poly)
	}
	return s
}

func itoa(i int) string { return string(appendInt(nil, int64(i))) }

func pathStr(p Path) string {
	b := []byte{'['}
	for i, v := range p {
		if i > 10 {
			b = append(b, " ..."...)
			break
		}
		b = append(b, '(')
		b = appendInt(b, v.X)
		b = append(b, ',')
		b = appendInt(b, v.Y)
		b = append(b, ')')
	}
	return string(append(b, ']'))
}

func init() {
	defProp("C04",
		"C01's generator plus nested boxes/diamonds to depth 6 (shifted so that children touch their parent's edge, either orientation, several groups) and the tips-and-bars family (bars on distinct Y levels and pointed polygons whose tips lie exactly on those levels, generic X, no shared edges) x {BooleanOpPolyTree64, Clipper64.ExecutePolyTree64, BooleanOpPolyTreeD, ClipperD.ExecutePolyTreeD with precisions 2,1,-1,3,-2}; oracle: the multiset of tree polygons (canonical rotation) equals the flat Paths result on the same (quantised) input; root has no polygon; IsHole() <=> even level <=> negative exact area; every vertex of a node within 2 units of / inside its parent; for an interior probe of each node (inside it, in none of its children, > 2 units from every tree edge) the parent is the smallest-area non-descendant polygon containing the probe (root if none), which covers 'inside no sibling' and 'innermost container'; non-trivial = depth >= 2 with a hole and >= 3 nodes",
		[]string{"the D variants are read in the integer frame of the nodes (Polygon() returns the scaled Path64, Scale() the factor)"},
		drawC04, judgeC04)
}

func TestC04(t *testing.T) { runProp(t, "C04") }
