package props

import (
	"testing"

	c2 "github.com/bolom009/go-clipper2"
	"pgregory.net/rapid"

	"verifharness/kit"
)

// RectJ is a JSON-friendly rectangle (left < right, top < bottom for a non-empty one).
type RectJ struct {
	L int64 `json:"l"`
	T int64 `json:"t"`
	R int64 `json:"r"`
	B int64 `json:"b"`
}

func (r RectJ) rect() c2.Rect64 { return c2.NewRect64(r.L, r.T, r.R, r.B) }
func (r RectJ) path() Path {
	return Path{{X: r.L, Y: r.T}, {X: r.R, Y: r.T}, {X: r.R, Y: r.B}, {X: r.L, Y: r.B}}
}
func (r RectJ) contains(p P) bool {
	return p.X >= r.L && p.X <= r.R && p.Y >= r.T && p.Y <= r.B
}
func (r RectJ) strictlyInside(p P) bool {
	return p.X > r.L && p.X < r.R && p.Y > r.T && p.Y < r.B
}

// C06Case: rectangle clipping of closed paths (also used for lines by C11).
type C06Case struct {
	Rect   RectJ `json:"rect"`
	Paths  Paths `json:"paths"`
	Single bool  `json:"single"` // use the one-path entry point
	Extra  []P   `json:"extra"`
}

func drawRect(t *rapid.T, R int64) RectJ {
	l := rapid.Int64Range(-R, R-1).Draw(t, "left")
	tp := rapid.Int64Range(-R, R-1).Draw(t, "top")
	w := rapid.Int64Range(1, R-l).Draw(t, "w")
	h := rapid.Int64Range(1, R-tp).Draw(t, "h")
	if rapid.IntRange(0, 3).Draw(t, "smallRect") == 0 {
		w, h = min(w, rapid.Int64Range(1, 40).Draw(t, "w2")), min(h, rapid.Int64Range(1, 40).Draw(t, "h2"))
	}
	return RectJ{L: l, T: tp, R: l + w, B: tp + h}
}

// drawRectPoint draws a point biased to the rectangle's features.
func drawRectPoint(t *rapid.T, r RectJ, R int64) P {
	cl := func(v int64) int64 { return clampR(v, 2*R) }
	w, h := r.R-r.L, r.B-r.T
	switch rapid.IntRange(0, 9).Draw(t, "ptKind") {
	case 0: // corner
		return r.path()[rapid.IntRange(0, 3).Draw(t, "corner")]
	case 1: // on a vertical edge
		return P{X: rapid.SampledFrom([]int64{r.L, r.R}).Draw(t, "vx"), Y: rapid.Int64Range(r.T-h/2-2, r.B+h/2+2).Draw(t, "vy")}
	case 2: // on a horizontal edge
		return P{X: rapid.Int64Range(r.L-w/2-2, r.R+w/2+2).Draw(t, "hx"), Y: rapid.SampledFrom([]int64{r.T, r.B}).Draw(t, "hy")}
	case 3, 4: // inside
		return P{X: rapid.Int64Range(r.L, r.R).Draw(t, "ix"), Y: rapid.Int64Range(r.T, r.B).Draw(t, "iy")}
	case 5: // just outside / inside by a unit
		c := r.path()[rapid.IntRange(0, 3).Draw(t, "nc")]
		return P{X: c.X + rapid.Int64Range(-2, 2).Draw(t, "ndx"), Y: c.Y + rapid.Int64Range(-2, 2).Draw(t, "ndy")}
	default: // around, up to one rectangle size away (and sometimes far)
		far := int64(1)
		if rapid.IntRange(0, 5).Draw(t, "far") == 0 {
			far = 8
		}
		return P{X: cl(rapid.Int64Range(r.L-far*w-3, r.R+far*w+3).Draw(t, "ox")), Y: cl(rapid.Int64Range(r.T-far*h-3, r.B+far*h+3).Draw(t, "oy"))}
	}
}

func drawC06(t *rapid.T) *C06Case {
	R := rapid.SampledFrom([]int64{20, 1000, 1000000, 1 << 27, 1 << 33, 1 << 40}).Draw(t, "R") // no magnitude limit in the statement; int64 products wrap from 2^31.5 on
	c := &C06Case{Rect: drawRect(t, R)}
	np := rapid.IntRange(1, 3).Draw(t, "nPaths")
	for i := 0; i < np; i++ {
		n := rapid.IntRange(3, 10).Draw(t, "n")
		if rapid.IntRange(0, 15).Draw(t, "degenerate") == 0 {
			n = rapid.IntRange(0, 2).Draw(t, "nDeg")
		}
		p := make(Path, n)
		for j := range p {
			p[j] = drawRectPoint(t, c.Rect, R)
		}
		c.Paths = append(c.Paths, mutateSpelling(t, p))
	}
	c.Single = len(c.Paths) == 1 && rapid.Bool().Draw(t, "single")
	for i, n := 0, rapid.IntRange(0, 4).Draw(t, "nExtra"); i < n; i++ {
		c.Extra = append(c.Extra, drawRectPoint(t, c.Rect, R))
	}
	return c
}

func pathBoundsWithin(p Path, r RectJ) bool {
	for _, v := range p {
		if !r.contains(v) {
			return false
		}
	}
	return len(p) > 0
}

func pathBoundsMiss(p Path, r RectJ) bool {
	minX, minY, maxX, maxY, ok := kit.Bounds(Paths{p})
	if !ok {
		return true
	}
	return maxX < r.L || minX > r.R || maxY < r.T || minY > r.B
}

func judgeC06(c *C06Case, cx *Ctx) *Violation {
	in := kit.ClonePaths(c.Paths)
	var res Paths
	if c.Single {
		res = c2.RectClipPath64(c.Rect.rect(), c.Paths[0])
	} else {
		res = c2.RectClipPaths64(c.Rect.rect(), c.Paths)
	}
	r := c.Rect
	for i, p := range res {
		for _, v := range p {
			if v.X < r.L-1 || v.X > r.R+1 || v.Y < r.T-1 || v.Y > r.B+1 {
				return violf("result path %d has vertex %v more than 1 unit outside the rectangle %+v; result=%v", i, v, r, res)
			}
		}
	}
	// paths within the rectangle come back unchanged and in order; paths whose bounds miss it vanish
	allMiss := true
	var inside Paths
	for _, p := range in {
		if len(p) < 3 {
			continue // a closed path needs three points; shorter ones are dropped by design
		}
		if pathBoundsWithin(p, r) {
			inside = append(inside, p)
		}
		if !pathBoundsMiss(p, r) {
			allMiss = false
		}
	}
	if allMiss && len(res) != 0 {
		return violf("every path lies outside the rectangle %+v but the result is %v", r, res)
	}
	k := 0
	for _, p := range res {
		if k < len(inside) && kit.PathsEqual(Paths{p}, Paths{inside[k]}) {
			k++
		}
	}
	if k != len(inside) {
		return violf("paths lying within the rectangle %+v must be returned unchanged and in order: inside paths %v, result %v", r, inside, res)
	}

	rectPath := r.path()
	probes := kit.Probes([]Paths{in, {rectPath}}, kit.ProbeOpt{Closed: true, Extra: c.Extra, Max: 4000})
	avoid := append(append(Paths{}, in...), rectPath)
	judged, nIn, nOut := 0, 0, 0
	for _, q := range probes {
		if !kit.FarFrom(q, avoid, true, band) {
			continue
		}
		judged++
		want := 0
		if r.strictlyInside(q) {
			want, _ = kit.Wind(in, q)
			nIn++
		} else {
			nOut++
		}
		got, on := kit.Wind(res, q)
		if on || got != want {
			return violf("winding number of the result at %v is %d (on a result edge: %v), expected %d (point inside rectangle: %v, rectangle %+v); result=%v",
				q, got, on, want, r.strictlyInside(q), r, res)
		}
	}
	crossings, vertexOn, along := rectInteraction(in, r)
	cx.St.Eval(c, crossings > 0 && nIn > 0 && nOut > 0, boolLabel("single", c.Single), boolLabel("vertex-on-rect", vertexOn), boolLabel("runs-along-edge", along), crossLabel(crossings))
	cx.St.Count("probes_judged", int64(judged))
	return nil
}

func crossLabel(n int) string {
	switch {
	case n == 0:
		return "crossings:0"
	case n <= 2:
		return "crossings:1-2"
	}
	return "crossings:3+"
}

// rectInteraction counts proper crossings of path edges (closed) with rectangle edges and
// reports whether a vertex lies on the rectangle and whether an edge runs along it.
func rectInteraction(ps Paths, r RectJ) (crossings int, vertexOn, along bool) {
	rp := r.path()
	for _, p := range ps {
		n := len(p)
		for i := 0; i < n; i++ {
			a, b := p[i], p[(i+1)%n]
			if (a.X == r.L || a.X == r.R) && a.Y >= r.T && a.Y <= r.B || (a.Y == r.T || a.Y == r.B) && a.X >= r.L && a.X <= r.R {
				vertexOn = true
			}
			if a == b {
				continue
			}
			for k := 0; k < 4; k++ {
				e1, e2 := rp[k], rp[(k+1)%4]
				if kit.SegsProperlyCross(a, b, e1, e2) {
					crossings++
				}
				if kit.CrossSign(e1, e2, a) == 0 && kit.CrossSign(e1, e2, b) == 0 && kit.SegsTouch(a, b, e1, e2) {
					along = true
				}
			}
		}
	}
	return
}

func init() {
	defProp("C06",
		"rapid-generated non-empty rectangles (extent 20 .. 2^27, 2^33, 2^40, also tiny ones) x 1-3 closed paths of 3-10 vertices (a few degenerate) whose vertices are drawn from: rectangle corners, points on its edges and their extensions, inside, one unit off a corner, around and far away; both RectClipPaths64 and RectClipPath64; oracle: result vertices within the rectangle enlarged by 1; exact winding number of the result == winding number of the input at probes inside the rectangle and == 0 outside, for probes farther than 2.001 from the rectangle edges and every input edge; paths within the rectangle returned unchanged in order, all-outside inputs give []; non-trivial = at least one path edge properly crosses a rectangle edge and probes were judged inside and outside",
		[]string{"closed paths with fewer than 3 points are dropped by the clipper by design and are not expected back"},
		drawC06, judgeC06)
}

func TestC06(t *testing.T) { runProp(t, "C06") }
