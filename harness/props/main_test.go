package props

import (
	"encoding/json"
	"os"
	"path/filepath"
	"testing"

	"verifharness/kit"
)

// TestMain flushes the statistics of the property that ran.
func TestMain(m *testing.M) {
	loadKnownFindings()
	code := m.Run()
	flushStats()
	os.Exit(code)
}

// flushStats writes the statistics of the property that ran (also called by the watchdog
// before it ends the process).
func flushStats() {
	if curStats != nil && outDir != "" {
		base := filepath.Join(outDir, "stats."+shardTag)
		_ = curStats.Flush(base)
		if p := registry[curStats.Property]; p != nil {
			b, _ := json.Marshal(statsMeta{Rule: p.rule, Assumptions: p.assumptions})
			_ = os.WriteFile(base+".meta.json", b, 0o644)
		}
	}
}

// TestReplay re-judges one saved case: VERIF_REPLAY=<file>. The file is either a
// failure file ({"property","msg","case"}) or the same without msg. The verdict goes
// to $VERIF_OUT/replay-result.json; the test itself fails on a violation.
func TestReplay(t *testing.T) {
	f := os.Getenv("VERIF_REPLAY")
	if f == "" {
		t.Skip("VERIF_REPLAY not set")
	}
	b, err := os.ReadFile(f)
	if err != nil {
		t.Fatalf("INFRA: %v", err)
	}
	var ff failureFile
	if err := json.Unmarshal(b, &ff); err != nil {
		t.Fatalf("INFRA: %v", err)
	}
	p := registry[ff.Property]
	if p == nil {
		t.Fatalf("INFRA: unknown property %q", ff.Property)
	}
	st := kit.NewStats(ff.Property)
	v, err := p.replay(ff.Case, &Ctx{St: st})
	if err != nil {
		t.Fatalf("INFRA: %v", err)
	}
	res := map[string]any{"property": ff.Property, "violation": v != nil}
	if v != nil {
		res["msg"] = v.Msg
	}
	if outDir != "" {
		rb, _ := json.Marshal(res)
		_ = os.WriteFile(filepath.Join(outDir, "replay-result.json"), rb, 0o644)
	}
	if v != nil {
		t.Fatalf("VIOLATION %s: %s", ff.Property, v.Msg)
	}
}
