//go:build !race

package props

const raceEnabled = false
