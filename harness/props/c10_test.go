package props

import (
	"math"
	"testing"

	c2 "github.com/bolom009/go-clipper2"
	"pgregory.net/rapid"

	"verifharness/kit"
)

// C10Case: offsetting of one open polyline.
type C10Case struct {
	Line       Path        `json:"line"`
	Before     Paths       `json:"before,omitempty"` // companion polylines given before the line, far away from it
	Delta      float64     `json:"delta"`
	Join       c2.JoinType `json:"join"`
	End        c2.EndType  `json:"end"`
	MiterLimit float64     `json:"miter_limit"`
	ArcTol     float64     `json:"arc_tol"`
}

func drawC10(t *rapid.T) *C10Case {
	c := &C10Case{}
	// the statement sets no magnitude limit: beyond 2^31.5 the squared length of a segment leaves int64
	scale := rapid.SampledFrom([]int64{40, 400, 20000, 5000000, 1 << 32, 1 << 38}).Draw(t, "scale")
	n := rapid.SampledFrom([]int{1, 2, 3, 4, 5, 6, 8}).Draw(t, "n")
	cur := P{X: rapid.Int64Range(-scale, scale).Draw(t, "x0"), Y: rapid.Int64Range(-scale, scale).Draw(t, "y0")}
	c.Line = Path{cur}
	for len(c.Line) < n {
		switch k := rapid.IntRange(0, 9).Draw(t, "step"); {
		case k == 0: // duplicate point
			c.Line = append(c.Line, cur)
		case k == 1 && len(c.Line) >= 2: // collinear continuation
			p := c.Line[len(c.Line)-2]
			cur = P{X: clampR(2*cur.X-p.X, 2*scale), Y: clampR(2*cur.Y-p.Y, 2*scale)}
			c.Line = append(c.Line, cur)
		case k == 2 && len(c.Line) >= 2: // back to an earlier vertex (an explicitly closed loop when it is the first)
			cur = c.Line[rapid.IntRange(0, len(c.Line)-2).Draw(t, "backTo")]
			c.Line = append(c.Line, cur)
		default:
			cur = P{X: rapid.Int64Range(-scale, scale).Draw(t, "x"), Y: rapid.Int64Range(-scale, scale).Draw(t, "y")}
			c.Line = append(c.Line, cur)
		}
	}
	if len(c.Line) >= 3 && rapid.IntRange(0, 5).Draw(t, "closeLoop") == 0 {
		c.Line = append(c.Line, c.Line[0])
	}
	// companions: 0-2 short polylines of 1-3 points far to the right of the line; their strokes
	// cannot interact with the line's, but per-group state of the offsetter can
	for i, nb := 0, rapid.IntRange(0, 2).Draw(t, "nBefore"); i < nb; i++ {
		base := P{X: 40*scale + int64(i)*10*scale, Y: 0}
		m := rapid.IntRange(1, 3).Draw(t, "companionPts")
		var cp Path
		for j := 0; j < m; j++ {
			cp = append(cp, P{X: base.X + rapid.Int64Range(0, scale/4+1).Draw(t, "cx"), Y: rapid.Int64Range(-scale/4-1, scale/4+1).Draw(t, "cy")})
		}
		c.Before = append(c.Before, cp)
	}
	c.End = rapid.SampledFrom([]c2.EndType{c2.Butt, c2.SquareET, c2.RoundET, c2.Joined}).Draw(t, "end")
	c.Join = rapid.SampledFrom([]c2.JoinType{c2.Miter, c2.Square, c2.Bevel, c2.Round}).Draw(t, "join")
	c.MiterLimit = rapid.SampledFrom([]float64{2, 1, 3, 10}).Draw(t, "miterLimit")
	// (delta capped at 5e6: a round join of radius 2^38 has ~10^6 arc steps - a resource-shaped limit)
	c.Delta = math.Exp(rapid.Float64Range(math.Log(0.5), math.Log(math.Min(float64(scale), 5e6))).Draw(t, "logDelta"))
	if rapid.IntRange(0, 2).Draw(t, "arcKind") == 0 && c.Delta >= 2 {
		c.ArcTol = rapid.Float64Range(0.25, c.Delta/4+0.25).Draw(t, "arcTol")
	}
	return c
}

func endName(e c2.EndType) string {
	switch e {
	case c2.Polygon:
		return "Polygon"
	case c2.Joined:
		return "Joined"
	case c2.Butt:
		return "Butt"
	case c2.SquareET:
		return "Square"
	case c2.RoundET:
		return "Round"
	}
	return "?"
}

// nearestOnLine returns the distance from q to the polyline (closed adds the closing
// segment), the index of the nearest segment and the parameter (0..1) on it.
func nearestOnLine(q P, line Path, closed bool) (dist float64, seg int, t float64) {
	dist = math.Inf(1)
	n := len(line)
	m := n - 1
	if closed {
		m = n
	}
	for i := 0; i < m; i++ {
		a, b := line[i], line[(i+1)%n]
		dx, dy := float64(b.X-a.X), float64(b.Y-a.Y)
		l2 := dx*dx + dy*dy
		tt := 0.0
		if l2 > 0 {
			tt = math.Max(0, math.Min(1, (float64(q.X-a.X)*dx+float64(q.Y-a.Y)*dy)/l2))
		}
		d := math.Hypot(float64(q.X)-(float64(a.X)+tt*dx), float64(q.Y)-(float64(a.Y)+tt*dy))
		if d < dist {
			dist, seg, t = d, i, tt
		}
	}
	return
}

func dedupLine(p Path) Path {
	var r Path
	for _, v := range p {
		if len(r) == 0 || r[len(r)-1] != v {
			r = append(r, v)
		}
	}
	return r
}

func judgeC10(c *C10Case, cx *Ctx) *Violation {
	c2.VerifStartRecording()
	input := append(kit.ClonePaths(c.Before), c.Line)
	sol := c2.InflatePaths64(input, c.Delta, c.Join, c.End, c2.WithMitterLimit(c.MiterLimit), c2.WithArcTolerance(c.ArcTol))
	evs := stopRecording()
	raw := rawOffsetPaths(evs)
	classCache := 0
	if v := canonicalPaths(sol); v != nil {
		return v
	}
	d := c.Delta
	line := dedupLine(c.Line)
	closed := c.End == c2.Joined
	if closed && len(line) > 1 && line[0] == line[len(line)-1] {
		line = line[:len(line)-1] // StripDuplicates(closed) drops an explicit closing point
	}
	end := c.End
	if closed && len(line) == 2 {
		// a two-point Joined path is stroked as an open segment with square (round) ends
		closed = false
		end = c2.SquareET
		if c.Join == c2.Round {
			end = c2.RoundET
		}
	}
	roundAny := c.Join == c2.Round || end == c2.RoundET
	arc := 0.0
	if roundAny {
		arc = c.ArcTol
		if arc <= 1e-12 {
			arc = d * 0.002
		}
	}
	tol := 2 + arc + 0.01
	k := offsetFactor(c.Join, c.MiterLimit)
	if end == c2.SquareET {
		k = math.Max(k, math.Sqrt2)
	}
	labels := []string{"end:" + endName(c.End), "join:" + joinName(c.Join), pointsLabel(len(line)), boolLabel("companions", len(c.Before) > 0)}

	// single point: a square (side 2*delta) or a circle
	if len(line) == 1 && c.End == c2.Joined {
		// a closed loop of one point is empty after the closing point is stripped; the
		// statement's single-point clause is read for the open end types Butt/Square/Round
		cx.St.Eval(c, false, append(labels, "single-point-joined-not-judged")...)
		return nil
	}
	if len(line) == 1 {
		ctr := line[0]
		kk := math.Sqrt2
		if end == c2.RoundET {
			kk = 1
		}
		nIn, nOut := 0, 0
		for _, r := range []float64{0, (d - tol) / 2, d - tol - 0.5, kk*d + tol + 1, 2 * (kk*d + tol)} {
			if r < 0 {
				continue
			}
			for a := 0; a < 16; a++ {
				ang := float64(a) * math.Pi / 8
				q := P{X: ctr.X + int64(math.Round(r*math.Cos(ang))), Y: ctr.Y + int64(math.Round(r*math.Sin(ang)))}
				dx, dy := math.Abs(float64(q.X-ctr.X)), math.Abs(float64(q.Y-ctr.Y))
				w, on := kit.Wind(sol, q)
				inside := w != 0 || on
				var mustIn bool
				if end == c2.RoundET {
					mustIn = math.Hypot(dx, dy) < d-tol
				} else {
					mustIn = math.Max(dx, dy) < d-tol
				}
				mustOut := math.Hypot(dx, dy) > kk*d+tol
				if mustIn {
					nIn++
				}
				if mustOut {
					nOut++
				}
				if mustIn && !inside {
					return violf("single point %v, delta %v, end %s: point %v must be inside the result %v", ctr, d, endName(c.End), q, sol)
				}
				if mustOut && w != 0 && !on {
					return violf("single point %v, delta %v, end %s: point %v must be outside the result %v", ctr, d, endName(c.End), q, sol)
				}
			}
		}
		cx.St.Eval(c, nIn > 0 && nOut > 0, labels...)
		return nil
	}

	// probes: rings along segment normals, behind the ends, around vertices
	var extra []P
	rs := []float64{}
	for _, r := range []float64{(d - tol) / 2, d - tol - 0.7, k*d + tol + 1.5, 1.5 * (k*d + tol)} {
		if r > 0.5 {
			rs = append(rs, r)
		}
	}
	n := len(line)
	m := n - 1
	if closed {
		m = n
	}
	for i := 0; i < m; i++ {
		a, b := line[i], line[(i+1)%n]
		dx, dy := float64(b.X-a.X), float64(b.Y-a.Y)
		l := math.Hypot(dx, dy)
		nx, ny := dy/l, -dx/l
		for _, t := range []float64{0.1, 0.5, 0.9} {
			for _, r := range rs {
				for _, s := range []float64{1, -1} {
					extra = append(extra, P{X: int64(math.Round(float64(a.X) + t*dx + s*r*nx)), Y: int64(math.Round(float64(a.Y) + t*dy + s*r*ny))})
				}
			}
		}
		// behind both ends of the segment (caps when it is the first/last one)
		for _, r := range rs {
			extra = append(extra, P{X: int64(math.Round(float64(a.X) - r*dx/l)), Y: int64(math.Round(float64(a.Y) - r*dy/l))},
				P{X: int64(math.Round(float64(b.X) + r*dx/l)), Y: int64(math.Round(float64(b.Y) + r*dy/l))},
				P{X: int64(math.Round(float64(a.X) - 0.7*r*dx/l + 0.7*r*nx)), Y: int64(math.Round(float64(a.Y) - 0.7*r*dy/l + 0.7*r*ny))},
				P{X: int64(math.Round(float64(b.X) + 0.7*r*dx/l - 0.7*r*nx)), Y: int64(math.Round(float64(b.Y) + 0.7*r*dy/l - 0.7*r*ny))})
		}
	}
	probes := kit.Probes([]Paths{{line}, sol}, kit.ProbeOpt{Closed: closed, Extra: extra, Max: 6000})

	f19 := kfActive("C10", "class:open-end-caps")
	nIn, nOut, excluded := 0, 0, 0
	for _, q := range probes {
		dist, seg, t := nearestOnLine(q, line, closed)
		if len(c.Before) > 0 && dist > 3*(k*d+tol)+10 {
			continue // companions live at least 40 extents away; only the line's surroundings are judged
		}
		w, on := kit.Wind(sol, q)
		inside := w != 0 || on
		if w != 0 && w != 1 && !on && kit.FarFrom(q, sol, true, band) {
			if engineExcuse("C10", q, evs, raw, &classCache) {
				cx.St.Count("mismatch_attributed_to_listed_engine_finding", 1)
				continue
			}
			return violf("stroke result has winding number %d at %v; result=%v", w, q, sol)
		}
		a, b := line[seg], line[(seg+1)%n]
		segLen := math.Hypot(float64(b.X-a.X), float64(b.Y-a.Y))
		along := t * segLen
		interiorFoot := along >= tol && along <= segLen-tol
		atOpenEnd := !closed && ((seg == 0 && t == 0) || (seg == n-2 && t == 1))

		mustOut := dist > k*d+tol
		if end == c2.Butt && !closed && !mustOut {
			// Butt ends stop at the end points: the stroke is the union of the segments'
			// rectangles (half width <= k*delta) and the joins around interior vertices, so a
			// point that is clear of all of those by tol must be outside even when it is
			// within k*delta of an end point
			covered := false
			for i := 0; i+1 < n && !covered; i++ {
				sa, sb := line[i], line[i+1]
				ux, uy := float64(sb.X-sa.X), float64(sb.Y-sa.Y)
				ul := math.Hypot(ux, uy)
				foot := (float64(q.X-sa.X)*ux + float64(q.Y-sa.Y)*uy) / ul
				perp := math.Abs(float64(q.X-sa.X)*uy-float64(q.Y-sa.Y)*ux) / ul
				if foot >= -tol && foot <= ul+tol && perp <= k*d+tol {
					covered = true
				}
			}
			for i := 1; i+1 < n && !covered; i++ {
				if math.Hypot(float64(q.X-line[i].X), float64(q.Y-line[i].Y)) <= k*d+tol {
					covered = true
				}
			}
			if !covered {
				mustOut = true
			}
		}
		mustIn := false
		switch {
		case interiorFoot && dist <= d-tol:
			mustIn = true // within delta - tol of a segment along its normal
		case c.Join == c2.Round && !atOpenEnd && dist < d-tol:
			mustIn = true // round joins fill the discs around interior vertices
		case atOpenEnd && end == c2.RoundET && dist < d-tol:
			mustIn = true // half disc
		case atOpenEnd && end == c2.SquareET && dist < d-tol:
			mustIn = true // the square cap contains the half disc
		}
		if mustIn && f19 && !closed && (n == 2 || seg == 0 || seg == n-2 ||
			kit.DistSeg(q, line[0], line[1]) <= k*d+tol || kit.DistSeg(q, line[n-2], line[n-1]) <= k*d+tol) {
			// listed finding F19: caps are never built and the first and last segment taper to
			// the end points. The raw offset curve is one closed curve, so the missing caps
			// change winding numbers wherever the strokes of the first/last segment would
			// reach: probes within k*delta+tol of those two segments are not judged.
			excluded++
			mustIn = false
		}
		if mustIn {
			nIn++
			if !inside && engineExcuse("C10", q, evs, raw, &classCache) {
				cx.St.Count("mismatch_attributed_to_listed_engine_finding", 1)
				continue
			}
			if !inside && kfActive("C10", "class:compound-rounding") && dist > d-tol-0.75 && !(interiorFoot && dist <= d-tol-0.75) {
				cx.St.Count("mismatch_attributed_to_listed_class_compound_rounding", 1)
				continue
			}
			if !inside && d > minSegLen(line, closed) && kfActive("C10", "class:delta-exceeds-segment") {
				// listed finding F43: with delta larger than a segment the inverted loops of the raw
				// offset curve at concave vertices reach across the stroke and cancel parts of it
				cx.St.Count("mismatch_attributed_to_listed_class_delta_exceeds_segment", 1)
				continue
			}
			if !inside {
				return violf("delta=%v end=%s join=%s: point %v (distance %.3f from the polyline, nearest segment %d at t=%.3f) must be inside the stroke but is outside; line=%v result=%v",
					d, endName(c.End), joinName(c.Join), q, dist, seg, t, line, sol)
			}
		}
		if mustOut && w != 0 && !on && (c.Join == c2.Square || c.Join == c2.Miter) && kfActive("C10", "class:near-reversal-square") &&
			hasNearReversal(line, closed) && dist <= 1.0115*k*d+tol {
			// listed finding F41: at vertices that almost reverse direction (cos <= -0.999) a square
			// join is built on both sides; its far corner lies up to 1.0113*sqrt(2)*delta away
			cx.St.Count("mismatch_attributed_to_listed_class_near_reversal", 1)
			mustOut = false
		}
		if mustOut {
			nOut++
			if w != 0 && !on && engineExcuse("C10", q, evs, raw, &classCache) {
				cx.St.Count("mismatch_attributed_to_listed_engine_finding", 1)
				continue
			}
			if w != 0 && !on {
				// F40 (compound rounding, +0.75) and F39 (Bevel mitres near-straight vertices, x1.00026)
				tol2, k2 := tol, k
				if kfActive("C10", "class:compound-rounding") {
					tol2 += 0.75
				}
				if c.Join == c2.Bevel && kfActive("C10", "class:bevel-near-straight-miter") {
					k2 *= 1.00026
				}
				if (tol2 != tol || k2 != k) && dist <= k2*d+tol2 {
					cx.St.Count("mismatch_attributed_to_listed_class_rounding_or_bevel", 1)
					continue
				}
			}
			if w != 0 && !on {
				return violf("delta=%v end=%s join=%s: point %v (distance %.3f from the polyline, k=%.3f, tol=%.3f) must be outside the stroke but is inside; line=%v result=%v",
					d, endName(c.End), joinName(c.Join), q, dist, k, tol, line, sol)
			}
		}
	}
	nontrivial := (n >= 4 || closed) && nIn > 0 && nOut > 0
	if d > minSegLen(line, closed) {
		labels = append(labels, "domain:delta-exceeds-a-segment")
	} else {
		labels = append(labels, "domain:strict")
	}
	cx.St.Eval(c, nontrivial, labels...)
	cx.St.Count("probes_must_be_inside", int64(nIn))
	cx.St.Count("probes_must_be_outside", int64(nOut))
	cx.St.Count("probes_excluded_first_last_segment(F19)", int64(excluded))
	return nil
}

// hasNearReversal: some vertex turns by more than acos(-0.999) (the library's threshold for
// treating both sides of a vertex as convex).
func hasNearReversal(line Path, closed bool) bool {
	n := len(line)
	for i := 0; i < n; i++ {
		if !closed && (i == 0 || i == n-1) {
			continue
		}
		a, b, c := line[(i+n-1)%n], line[i], line[(i+1)%n]
		ux, uy := float64(b.X-a.X), float64(b.Y-a.Y)
		vx, vy := float64(c.X-b.X), float64(c.Y-b.Y)
		lu, lv := math.Hypot(ux, uy), math.Hypot(vx, vy)
		if lu == 0 || lv == 0 {
			continue
		}
		if (ux*vx+uy*vy)/(lu*lv) <= -0.9985 {
			return true
		}
	}
	return false
}

func minSegLen(line Path, closed bool) float64 {
	m := math.Inf(1)
	n := len(line)
	cnt := n - 1
	if closed {
		cnt = n
	}
	for i := 0; i < cnt; i++ {
		a, b := line[i], line[(i+1)%n]
		m = math.Min(m, math.Hypot(float64(b.X-a.X), float64(b.Y-a.Y)))
	}
	return m
}

func pointsLabel(n int) string {
	switch {
	case n == 1:
		return "points:1"
	case n == 2:
		return "points:2"
	case n == 3:
		return "points:3"
	}
	return "points:4+"
}

func init() {
	defProp("C10",
		"rapid-generated open polylines of 1, 2, 3-8 points (duplicates, collinear continuations; extent 40 .. 5e6, 2^32, 2^38) x end types {Butt, Square, Round, Joined} x 4 join types x delta log-uniform in [0.5, min(extent, 5e6)] x arc tolerances; oracle from float distances to the polyline at ring probes along segment normals, behind segment ends and around vertices: points within delta-tol of a segment along its normal (foot at least tol inside the segment) inside; round joins / round and square caps: discs / half discs of radius delta-tol inside; points farther than k*delta+tol outside; Butt: points more than tol behind an open end outside; single points: square / circle of radius delta; result canonical (winding 0/1); non-trivial = >= 4 points or Joined, and both kinds of probes judged",
		[]string{"tol = 2 + effective arc tolerance + 0.01; k as in C05, at least sqrt 2 with square caps",
			"while F19 is listed, must-be-inside probes within k*delta+tol of the first or last segment of an open (non-Joined) path are excluded and counted"},
		drawC10, judgeC10)
}

func TestC10(t *testing.T) { runProp(t, "C10") }
