package props

import (
	"testing"

	c2 "github.com/bolom009/go-clipper2"
	"pgregory.net/rapid"

	"verifharness/kit"
)

// C02Case: a boolean operation plus the two engine options.
type C02Case struct {
	C01Case
	PreserveCollinear bool `json:"preserve_collinear"`
	Reverse           bool `json:"reverse"`
}

func runEngineOpts(ct c2.ClipType, fr c2.FillRule, subj, clip Paths, pc, rev bool) (sol Paths, evs []c2.VerifEvent) {
	c2.VerifStartRecording()
	defer func() { evs = stopRecording() }()
	c := c2.NewClipper64()
	c2.VerifSetOptions64(c, pc, rev)
	c.AddPaths(subj, c2.Subject, false)
	if clip != nil {
		c.AddPaths(clip, c2.Clip, false)
	}
	sol = Paths{}
	if !c.Execute(ct, fr, &sol) {
		panic("Execute returned false")
	}
	return sol, evs
}

// canonicalPaths checks the vertex-level rules of a closed solution.
func canonicalPaths(sol Paths) *Violation {
	for i, p := range sol {
		if len(p) < 3 {
			return violf("solution path %d has %d vertices: %v", i, len(p), p)
		}
		for j := range p {
			if p[j] == p[(j+1)%len(p)] {
				return violf("solution path %d repeats vertex %v at index %d (cyclically consecutive): %v", i, p[j], j, p)
			}
		}
	}
	return nil
}

// windingCanonical checks that the winding number of the whole solution is 0 or sign at
// every probe farther than the band from every solution edge.
func windingCanonical(prop string, sol Paths, sign int, probes []P, evs []c2.VerifEvent, inputs Paths) (*Violation, int, int) {
	judged, att, cache := 0, 0, 0
	for _, q := range probes {
		if !kit.FarFrom(q, sol, true, band) {
			continue
		}
		judged++
		w, _ := kit.Wind(sol, q)
		if w == 0 || w == sign {
			continue
		}
		if engineExcuse(prop, q, evs, inputs, &cache) {
			att++
			continue
		}
		return violf("solution winding number is %d at %v (allowed: 0 or %d): overlapping or wrongly oriented paths; solution=%v", w, q, sign, sol), judged, att
	}
	return nil, judged, att
}

func judgeC02(c *C02Case, cx *Ctx) *Violation {
	sol, evs := runEngineOpts(c.CT, c.FR, c.Subj, c.Clip, c.PreserveCollinear, c.Reverse)
	if v := canonicalPaths(sol); v != nil {
		return v
	}
	sign := 1
	if c.Reverse {
		sign = -1
	}
	probes := kit.Probes([]Paths{sol, c.Subj, c.Clip}, kit.ProbeOpt{Closed: true, Extra: c.Extra})
	inputs := append(append(Paths{}, c.Subj...), c.Clip...)
	domain := "domain:strict"
	if in, why := kit.NearDegenerate([]Paths{inputs}, true, nearTol); in {
		domain = "domain:near-degenerate(" + why + ")"
	}
	v, judged, att := windingCanonical("C02", sol, sign, probes, evs, inputs)
	if v != nil {
		return v
	}
	// orientation of outers/holes is implied by winding in {0,sign} off the edges
	holes := 0
	for _, p := range sol {
		s := kit.Area2(p).Sign()
		if s == 0 {
			// a zero-area (spike) path satisfies the statement literally; only counted
			cx.St.Count("zero_area_solution_paths", 1)
			continue
		}
		if s != sign {
			holes++
		}
	}

	// the default-option run must describe the same region (C01 judges it against the
	// inputs; here the two runs are compared with each other, events pooled)
	ref, evs2 := runEngineOpts(c.CT, c.FR, c.Subj, c.Clip, true, false)
	pooled := append(append([]c2.VerifEvent{}, evs...), evs2...)
	cmpJudged, cacheIn := 0, 0
	for _, q := range probes {
		if !kit.FarFrom(q, inputs, true, band) {
			continue
		}
		cmpJudged++
		w1, on1 := kit.Wind(sol, q)
		w2, on2 := kit.Wind(ref, q)
		if on1 || on2 || (w1 != 0) == (w2 != 0) {
			continue // (a solution edge far from every input edge is C01's business, not a difference between options)
		}
		if engineExcuse("C02", q, pooled, inputs, &cacheIn) {
			att++
			continue
		}
		return violf("options preserveCollinear=%v reverse=%v change the region at %v: winding %d (on edge %v) vs default-options winding %d (on edge %v); sol=%v ref=%v",
			c.PreserveCollinear, c.Reverse, q, w1, on1, w2, on2, sol, ref)
	}
	if c.Reverse && !c.PreserveCollinear {
		// nothing more
	}
	// orientation flips together: compare signed areas path-multiset-wise when only reverse differs
	if c.Reverse && c.PreserveCollinear {
		if len(ref) != len(sol) {
			return violf("reverse-solution changes the number of paths: %d vs %d; sol=%v ref=%v", len(sol), len(ref), sol, ref)
		}
		for i := range sol {
			if kit.Area2(sol[i]).Cmp(kit.Area2(ref[i]).Neg(kit.Area2(ref[i]))) != 0 {
				return violf("reverse-solution path %d does not have the negated area of the default run: %v vs %v", i, sol[i], ref[i])
			}
		}
	}

	// re-uniting a solution with itself changes nothing outside the band around its edges
	re, evs3 := runBoolean(0, c2.Union, c2.NonZero, sol, nil)
	reJudged, cacheRe := 0, 0
	reRaw := append(append(Paths{}, inputs...), sol...) // the re-union's own input is the solution
	for _, q := range probes {
		if !kit.FarFrom(q, sol, true, band) {
			continue
		}
		reJudged++
		w1, _ := kit.Wind(sol, q)
		w2, on2 := kit.Wind(re, q)
		if !on2 && (w1 != 0) == (w2 != 0) {
			continue
		}
		if engineExcuse("C02", q, evs3, reRaw, &cacheRe) {
			att++
			continue
		}
		return violf("Union(solution, NonZero) differs from the solution at %v: solution winding %d, re-united winding %d (on edge %v); sol=%v reunited=%v events=%s", q, w1, w2, on2, sol, re, fmtEvents(evs3))
	}

	nontrivial := len(sol) >= 2 || holes > 0
	lbl := "paths:1"
	switch {
	case len(sol) == 0:
		lbl = "paths:0"
	case len(sol) >= 2:
		lbl = "paths:2+"
	}
	hl := "holes:0"
	if holes > 0 {
		hl = "holes:1+"
	}
	cx.St.Eval(c, nontrivial, c.Fam.Label(), domain, lbl, hl, boolLabel("pc", c.PreserveCollinear), boolLabel("rev", c.Reverse), "op:"+ctName(c.CT)+"/"+frName(c.FR))
	cx.St.Count("probes_judged_winding", int64(judged))
	cx.St.Count("probes_judged_option_compare", int64(cmpJudged))
	cx.St.Count("probes_judged_reunion", int64(reJudged))
	cx.St.Count("mismatch_attributed_to_listed_finding", int64(att))
	return nil
}

func boolLabel(n string, b bool) string {
	if b {
		return n + ":true"
	}
	return n + ":false"
}

func init() {
	defProp("C02",
		"C01's generator x preserveCollinear x reverseSolution (set through the verif hook on an engine object); validity predicate: >=3 vertices, no cyclically consecutive equal vertices, winding number of the whole solution in {0,1} ({0,-1} reversed) at probes farther than 2.001 from every solution edge (probes placed around solution and input edges), same region as the default-option run, negated areas under reverse, Union(solution,NonZero) leaves the region unchanged; non-trivial = solution has >=2 paths or a hole",
		[]string{"oracle kit is correct", "re-union is judged only outside the 2-unit band around solution edges"},
		func(t *rapid.T) *C02Case {
			c := &C02Case{C01Case: *drawBoolCase(t, drawFamily(t))}
			c.Entry = 0
			c.PreserveCollinear = rapid.Bool().Draw(t, "preserveCollinear")
			c.Reverse = rapid.Bool().Draw(t, "reverse")
			return c
		}, judgeC02)
}

func TestC02(t *testing.T) { runProp(t, "C02") }
