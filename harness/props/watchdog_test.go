package props

import (
	"encoding/json"
	"os"
	"path/filepath"
	"sync"
	"syscall"
	"time"
)

const c03Deadline = 10 * time.Second // typical cost of a call is far below a millisecond

// procCPU returns the CPU time consumed by this process so far. The watchdog fires only
// when the current call has been running for longer than the deadline on the wall clock
// AND the process has burnt that much CPU time meanwhile: a process that is merely starved
// on a busy machine does not look like a hang.
func procCPU() time.Duration {
	var ru syscall.Rusage
	if syscall.Getrusage(syscall.RUSAGE_SELF, &ru) != nil {
		return 0
	}
	return time.Duration(ru.Utime.Nano() + ru.Stime.Nano())
}

var (
	c03Mu      sync.Mutex
	c03Started time.Time
	c03Current []byte
	c03Prop    string
	c03CPU     time.Duration
	c03Limit   time.Duration
	c03Once    sync.Once
)

// watchdogArm / watchdogDisarm bracket a library call that must return (also used by C13).
func watchdogArm(prop string, c any) { watchdogArmFor(prop, c, c03Deadline) }

// watchdogArmFor arms the watchdog with a given deadline (the framework arms it with a
// generous one around every judge, so that a library call that never returns becomes a
// counter-example of the property under test instead of a stuck shard).
func watchdogArmFor(prop string, c any, limit time.Duration) {
	c03Once.Do(c03Watchdog)
	raw, _ := json.Marshal(c)
	c03Mu.Lock()
	c03Current, c03Started, c03Prop, c03CPU, c03Limit = raw, time.Now(), prop, procCPU(), limit
	c03Mu.Unlock()
}

func watchdogDisarm() {
	c03Mu.Lock()
	c03Current = nil
	c03Mu.Unlock()
}

// c03Watchdog turns a call that does not return into a saved counter-example: it writes
// the journalled case as the shard's failure file and ends the process (a hung goroutine
// cannot be stopped any other way). The wall clock is used for this purpose only.
func c03Watchdog() {
	go func() {
		for {
			time.Sleep(500 * time.Millisecond)
			c03Mu.Lock()
			cur, since, prop, cpu0, limit := c03Current, time.Since(c03Started), c03Prop, c03CPU, c03Limit
			c03Mu.Unlock()
			if cur != nil && since > limit && procCPU()-cpu0 > limit*9/10 {
				if outDir != "" {
					b, _ := json.MarshalIndent(failureFile{Property: prop, Msg: "the call did not return within " + limit.String() + " (hang)", Case: cur}, "", " ")
					_ = os.WriteFile(filepath.Join(outDir, "failure."+shardTag+".json"), b, 0o644)
				}
				flushStats()
				os.Exit(3)
			}
		}
	}()
}
