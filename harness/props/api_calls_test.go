package props

import (
	"errors"
	"fmt"
	"math"

	c2 "github.com/bolom009/go-clipper2"
	"pgregory.net/rapid"
)

// APICall is one call of an exported function or method with generated arguments. It is the
// shared grammar of C03 (totality), C12 (inputs are not modified), C17 (repeatable) and
// C18 (concurrent use).
type APICall struct {
	Fn   string     `json:"fn"`
	A    Paths      `json:"a"`    // first path set (subject / paths / pattern in A[0])
	B    Paths      `json:"b"`    // second path set (clip / path in B[0])
	Div  float64    `json:"div"`  // float variants see A/Div and B/Div
	Rect RectJ      `json:"rect"` // possibly empty or inverted
	CT   uint8      `json:"ct"`
	FR   uint8      `json:"fr"`
	JT   uint8      `json:"jt"`
	ET   uint8      `json:"et"`
	Prec int        `json:"prec"`
	F    [3]float64 `json:"f"` // delta / epsilon / scale, miter limit, arc tolerance
	I    int        `json:"i"` // steps, counts
	Bo   [2]bool    `json:"bo"`
	Q    P          `json:"q"`
}

var apiFns = []string{
	"BooleanOpPaths64", "UnionPaths64", "UnionWithClipPaths64", "IntersectWithClipPaths64", "DifferenceWithClipPaths64", "XorWithClipPaths64",
	"BooleanOpPolyTree64", "Clipper64.Execute", "Clipper64.ExecuteOC", "Clipper64.ExecutePolyTree64", "Clipper64.AddPath",
	"BooleanOpPathsD", "UnionPathsD", "UnionWithClipPathsD", "IntersectWithClipPathsD", "DifferenceWithClipPathsD", "XorWithClipPathsD",
	"BooleanOpPolyTreeD", "ClipperD.Execute", "ClipperD.ExecuteOC", "ClipperD.ExecutePolyTreeD", "ClipperD.ScaleFuncs",
	"InflatePaths64", "InflatePathsD", "ClipperOffset.Execute64", "ClipperOffset.DeltaCallback", "ClipperOffset.SharedDeltaCallback", "NewGroup",
	"MinkowskiSum64", "MinkowskiDiff64", "MinkowskiSumD", "MinkowskiDiffD",
	"RectClipPaths64", "RectClipPath64", "RectClipPathsD", "RectClipPathD", "RectClip64.Execute",
	"RectClipLinesPaths64", "RectClipLinesPath64", "RectClipLinesPathsD", "RectClipLinesPathD", "RectClipLines64.Execute",
	"SimplifyPath64", "SimplifyPaths64", "SimplifyPathD", "SimplifyPathsD", "TrimCollinear64", "TrimCollinearD", "StripDuplicates",
	"Area64", "AreaPaths64", "AreaD", "AreaPathsD", "IsPositive64", "IsPositiveD", "GetBounds64", "PointInPolygon", "Path2ContainsPath1",
	"Ellipse64", "EllipseD", "ScaleAndConvert", "Translate", "RectMethods", "PointMethods", "PolyPathAPI", "Misc",
}

var hostileDeltas = []float64{0, 0.49, -0.49, 0.5, -0.5, 1, -1, 2.5, 10, -10, 1000, -1000, 1e6, -1e6, 1e9, 1e12, -1e12, 1e-300, math.SmallestNonzeroFloat64}

func drawHostilePath(t *rapid.T, R int64) Path {
	pt := func() P {
		if rapid.IntRange(0, 3).Draw(t, "poolPt") == 0 {
			return P{X: clampC(rapid.SampledFrom(poolVals).Draw(t, "px")), Y: clampC(rapid.SampledFrom(poolVals).Draw(t, "py"))}
		}
		return P{X: rapid.Int64Range(-R, R).Draw(t, "x"), Y: rapid.Int64Range(-R, R).Draw(t, "y")}
	}
	switch rapid.IntRange(0, 11).Draw(t, "shape") {
	case 0:
		return Path{}
	case 1:
		return nil
	case 2:
		return Path{pt()}
	case 3:
		return Path{pt(), pt()}
	case 4:
		a := pt()
		return Path{a, a, a, a}
	case 5: // all on one horizontal line
		a := pt()
		n := rapid.IntRange(2, 6).Draw(t, "hn")
		p := make(Path, n)
		for i := range p {
			p[i] = P{X: rapid.Int64Range(-R, R).Draw(t, "hx"), Y: a.Y}
		}
		return p
	case 6: // collinear / spikes
		a, b := pt(), pt()
		return Path{a, b, a, b, a}
	default:
		n := rapid.IntRange(3, 10).Draw(t, "n")
		p := make(Path, n)
		for i := range p {
			if i > 0 && rapid.IntRange(0, 7).Draw(t, "dup") == 0 {
				p[i] = p[i-1]
			} else {
				p[i] = pt()
			}
		}
		return p
	}
}

func drawHostilePaths(t *rapid.T, R int64, label string) Paths {
	switch rapid.IntRange(0, 9).Draw(t, label+"Kind") {
	case 0:
		return nil
	case 1:
		return Paths{}
	case 2, 3:
		// the polygon families of the boolean checks (lattice, dense, rectilinear, octagonal,
		// generic): many touching vertices, coincident edges and overlaps
		return drawClosedPaths(t, drawFamily(t), 1, 3, label+"Fam")
	}
	n := rapid.IntRange(1, 3).Draw(t, label+"N")
	ps := make(Paths, n)
	for i := range ps {
		ps[i] = drawHostilePath(t, R)
	}
	return ps
}

func drawAPICall(t *rapid.T) *APICall {
	c := &APICall{Fn: rapid.SampledFrom(apiFns).Draw(t, "fn")}
	R := rapid.SampledFrom([]int64{10, 1000, 1000000, maxC}).Draw(t, "R")
	c.A = drawHostilePaths(t, R, "a")
	c.B = drawHostilePaths(t, R, "b")
	c.Div = rapid.SampledFrom([]float64{1, 100, 1000, 0.01}).Draw(t, "div")
	switch rapid.IntRange(0, 5).Draw(t, "rectKind") {
	case 0:
		c.Rect = RectJ{} // empty
	case 1: // inverted
		c.Rect = RectJ{L: 10, T: 10, R: -10, B: -10}
	case 2: // zero width
		c.Rect = RectJ{L: 5, T: -R, R: 5, B: R}
	default:
		c.Rect = drawRect(t, R)
	}
	c.CT = rapid.SampledFrom([]uint8{0, 1, 2, 3, 4, 5, 255}).Draw(t, "ct")
	c.FR = rapid.SampledFrom([]uint8{0, 1, 2, 3, 4, 255}).Draw(t, "fr")
	c.JT = rapid.SampledFrom([]uint8{0, 1, 2, 3, 4, 255}).Draw(t, "jt")
	c.ET = rapid.SampledFrom([]uint8{0, 1, 2, 3, 4, 5, 255}).Draw(t, "et")
	c.Prec = rapid.SampledFrom([]int{2, 0, -8, 8, 1, -3, 5, 9, -9, 100}).Draw(t, "prec")
	if rapid.IntRange(0, 2).Draw(t, "goodPrec") > 0 && (c.Prec > 8 || c.Prec < -8) {
		c.Prec = 2
	}
	c.F[0] = rapid.SampledFrom(hostileDeltas).Draw(t, "f0")
	if rapid.Bool().Draw(t, "f0rand") {
		c.F[0] = rapid.Float64Range(-float64(R), float64(R)).Draw(t, "f0v")
	}
	c.F[1] = rapid.SampledFrom([]float64{2, 0, 1, -1, 0.5, 10, 1e9}).Draw(t, "miter")
	c.F[2] = rapid.SampledFrom([]float64{0, 0.25, 1, 100, -1}).Draw(t, "arcTol")
	// resource-shaped precondition: a round join / cap is asked for at most ~1e5 arc steps
	if minArc := math.Abs(c.F[0]) * 1e-5; c.F[2] > 0 && c.F[2] < minArc {
		c.F[2] = minArc
	}
	// ... and a single point with a round end becomes an ellipse of pi*sqrt(radius) vertices
	if (c.ET == 4 || c.JT == 3) && math.Abs(c.F[0]) > 1e9 {
		c.F[0] = math.Copysign(1e9, c.F[0])
	}
	c.I = rapid.SampledFrom([]int{0, 1, 2, 3, 7, 64, -5, 1000}).Draw(t, "i")
	c.Bo = [2]bool{rapid.Bool().Draw(t, "b0"), rapid.Bool().Draw(t, "b1")}
	c.Q = P{X: rapid.Int64Range(-R, R).Draw(t, "qx"), Y: rapid.Int64Range(-R, R).Draw(t, "qy")}
	// "coordinates within range": the scaled magnitude of float inputs stays within 2^30
	if c.Fn == "RectClipPathD" || c.Fn == "RectClipLinesPathD" {
		// these take no precision and always use 2
		m := float64(max(maxAbsPaths(c.A), abs64(c.Rect.L), abs64(c.Rect.R), abs64(c.Rect.T), abs64(c.Rect.B), 1))
		if m/c.Div*100 > float64(int64(1)<<30) {
			c.Div = 100
		}
	}
	if c.takesPrecision() && c.Prec >= -8 && c.Prec <= 8 {
		m := float64(max(maxAbsPaths(c.A), maxAbsPaths(c.B), abs64(c.Rect.L), abs64(c.Rect.R), abs64(c.Rect.T), abs64(c.Rect.B), 1))
		for c.Prec > -8 && m/c.Div*math.Pow(10, float64(c.Prec)) > float64(int64(1)<<30) {
			c.Prec--
		}
		if m/c.Div*math.Pow(10, float64(c.Prec)) > float64(int64(1)<<30) {
			c.Div, c.Prec = 1, 0
		}
	}
	// the same resource-shaped bound for the floating-point offsetter, whose delta is divided by
	// Div and multiplied by 10^precision before it reaches the integer offsetter (a single point
	// with a round end becomes an ellipse of pi*sqrt(scaled radius) vertices)
	if c.Fn == "InflatePathsD" && (c.ET == 4 || c.JT == 3) && c.Prec >= -8 && c.Prec <= 8 {
		if k := math.Pow(10, float64(c.Prec)) / c.Div; math.Abs(c.F[0])*k > 1e9 {
			c.F[0] = math.Copysign(1e9/k, c.F[0])
		}
	}
	return c
}

func maxAbsPaths(ps Paths) int64 {
	var m int64
	for _, p := range ps {
		m = max(m, maxAbs(p))
	}
	return m
}

func (c *APICall) ad() c2.PathsD { return pathsToDKeepNil(c.A, c.Div) }
func (c *APICall) bd() c2.PathsD { return pathsToDKeepNil(c.B, c.Div) }

func pathsToDKeepNil(ps Paths, div float64) c2.PathsD {
	if ps == nil {
		return nil
	}
	return pathsToD(ps, div)
}

func first(ps Paths) Path {
	if len(ps) == 0 {
		return nil
	}
	return ps[0]
}

func firstD(ps c2.PathsD) c2.PathD {
	if len(ps) == 0 {
		return nil
	}
	return ps[0]
}

func (c *APICall) rectD() c2.RectD {
	return c2.NewRectD(float64(c.Rect.L)/c.Div, float64(c.Rect.T)/c.Div, float64(c.Rect.R)/c.Div, float64(c.Rect.B)/c.Div)
}

// takesPrecision reports whether the call passes c.Prec to the library.
func (c *APICall) takesPrecision() bool {
	switch c.Fn {
	case "BooleanOpPathsD", "UnionPathsD", "UnionWithClipPathsD", "IntersectWithClipPathsD", "DifferenceWithClipPathsD", "XorWithClipPathsD",
		"BooleanOpPolyTreeD", "ClipperD.Execute", "ClipperD.ExecuteOC", "ClipperD.ExecutePolyTreeD", "ClipperD.ScaleFuncs", "InflatePathsD",
		"MinkowskiSumD", "MinkowskiDiffD", "RectClipPathsD", "RectClipLinesPathsD", "TrimCollinearD":
		return true
	}
	return false
}

// APIResult is what a call produced, in a comparable form.
type APIResult struct {
	Fingerprint string // %v of every returned value
	ExecFalse   bool   // an Execute* method returned false
	Panic       any    // recovered panic value, nil if none
	PrecPanic   bool   // the panic is ErrPrecisionRange
}

// Run executes the call (panics are recovered and reported).
func (c *APICall) Run() (res APIResult) {
	defer func() {
		if e := recover(); e != nil {
			res.Panic = e
			if err, ok := e.(error); ok && errors.Is(err, c2.ErrPrecisionRange) {
				res.PrecPanic = true
			}
		}
	}()
	var out []any
	exec := func(ok bool) {
		if !ok {
			res.ExecFalse = true
		}
	}
	ct, fr, jt, et := c2.ClipType(c.CT), c2.FillRule(c.FR), c2.JoinType(c.JT), c2.EndType(c.ET)
	opts := []c2.InflateOption{c2.WithMitterLimit(c.F[1]), c2.WithArcTolerance(c.F[2])}
	switch c.Fn {
	case "BooleanOpPaths64":
		out = append(out, c2.BooleanOpPaths64(ct, c.A, c.B, fr))
	case "UnionPaths64":
		out = append(out, c2.UnionPaths64(c.A, fr))
	case "UnionWithClipPaths64":
		out = append(out, c2.UnionWithClipPaths64(c.A, c.B, fr))
	case "IntersectWithClipPaths64":
		out = append(out, c2.IntersectWithClipPaths64(c.A, c.B, fr))
	case "DifferenceWithClipPaths64":
		out = append(out, c2.DifferenceWithClipPaths64(c.A, c.B, fr))
	case "XorWithClipPaths64":
		out = append(out, c2.XorWithClipPaths64(c.A, c.B, fr))
	case "BooleanOpPolyTree64":
		tr := c2.BooleanOpPolyTree64(ct, c.A, c.B, fr)
		out = append(out, treeFingerprint(tr.PolyPathBase))
	case "Clipper64.Execute":
		e := c2.NewClipper64()
		e.AddPaths(c.A, c2.Subject, false)
		e.AddPaths(c.B, c2.Clip, false)
		sol := Paths{{{X: 1, Y: 1}}}
		exec(e.Execute(ct, fr, &sol))
		out = append(out, sol)
	case "Clipper64.ExecuteOC":
		e := c2.NewClipper64()
		e.AddPaths(c.A, c2.Subject, c.Bo[0])
		e.AddPaths(c.B, c2.PathType(b2u(c.Bo[1])), false)
		cl, op := Paths{}, Paths{}
		exec(e.ExecuteOC(ct, fr, &cl, &op))
		out = append(out, cl, op)
	case "Clipper64.ExecutePolyTree64":
		e := c2.NewClipper64()
		e.AddPaths(c.A, c2.Subject, c.Bo[0])
		e.AddPaths(c.B, c2.Clip, false)
		tr := c2.NewPolyTree64()
		op := c2.PathsD{}
		exec(e.ExecutePolyTree64(ct, fr, tr, &op))
		out = append(out, treeFingerprint(tr.PolyPathBase), op)
	case "Clipper64.AddPath":
		e := c2.NewClipper64()
		for _, p := range c.A {
			e.AddPath(p, c2.Subject, c.Bo[0])
		}
		for _, p := range c.B {
			e.AddPath(p, c2.Clip, false)
		}
		sol := Paths{}
		exec(e.Execute(ct, fr, &sol))
		out = append(out, sol)
	case "BooleanOpPathsD":
		out = append(out, c2.BooleanOpPathsD(ct, c.ad(), c.bd(), fr, c.Prec))
	case "UnionPathsD":
		out = append(out, c2.UnionPathsD(c.ad(), fr, c.Prec))
	case "UnionWithClipPathsD":
		out = append(out, c2.UnionWithClipPathsD(c.ad(), c.bd(), fr, c.Prec))
	case "IntersectWithClipPathsD":
		out = append(out, c2.IntersectWithClipPathsD(c.ad(), c.bd(), fr, c.Prec))
	case "DifferenceWithClipPathsD":
		out = append(out, c2.DifferenceWithClipPathsD(c.ad(), c.bd(), fr, c.Prec))
	case "XorWithClipPathsD":
		out = append(out, c2.XorWithClipPathsD(c.ad(), c.bd(), fr, c.Prec))
	case "BooleanOpPolyTreeD":
		tr := c2.BooleanOpPolyTreeD(ct, c.ad(), c.bd(), fr, c.Prec)
		out = append(out, treeFingerprint(tr.PolyPathBase), tr.Scale())
	case "ClipperD.Execute":
		e := c2.NewClipperD(c.Prec)
		e.AddPaths(c.ad(), c2.Subject, false)
		e.AddPaths(c.bd(), c2.Clip, false)
		sol := c2.PathsD{}
		exec(e.Execute(ct, fr, &sol))
		out = append(out, sol)
	case "ClipperD.ExecuteOC":
		e := c2.NewClipperD(c.Prec)
		e.AddPaths(c.ad(), c2.Subject, c.Bo[0])
		e.AddPaths(c.bd(), c2.Clip, false)
		cl, op := c2.PathsD{}, c2.PathsD{}
		exec(e.ExecuteOC(ct, fr, &cl, &op))
		out = append(out, cl, op)
	case "ClipperD.ExecutePolyTreeD":
		e := c2.NewClipperD(c.Prec)
		e.AddPaths(c.ad(), c2.Subject, c.Bo[0])
		e.AddPaths(c.bd(), c2.Clip, false)
		tr := c2.NewPolyTreeD()
		op := c2.PathsD{}
		exec(e.ExecutePolyTreeD(ct, fr, tr, &op))
		out = append(out, treeFingerprint(tr.PolyPathBase), op, tr.Scale())
	case "ClipperD.ScaleFuncs":
		e := c2.NewClipperD(c.Prec)
		e.AddPathsWithScaleFunc(c.ad(), c2.Subject, false, c2.ScalePathsDToPaths64)
		e.AddPathsWithScaleFunc(c.bd(), c2.Clip, false, c2.ScalePathsDToPaths64)
		cl, op := c2.PathsD{}, c2.PathsD{}
		exec(e.ExecuteWithScaleFunc(ct, fr, &cl, &op, c2.ScalePath64ToPathD))
		out = append(out, cl, op)
	case "InflatePaths64":
		out = append(out, c2.InflatePaths64(c.A, c.F[0], jt, et, opts...))
	case "InflatePathsD":
		out = append(out, c2.InflatePathsD(c.ad(), c.F[0]/c.Div, jt, et, append(opts, c2.WithPrecision(c.Prec))...))
	case "ClipperOffset.Execute64":
		co := c2.NewClipperOffset(c.F[1], c.F[2], c.Bo[0], c.Bo[1])
		co.AddPaths(c.A, jt, et)
		co.AddPaths(c.B, c2.JoinType(c.I&3), c2.EndType(c.CT%5))
		sol := Paths{}
		out = append(out, co.CalcSolutionCapacity(), co.CheckPathsReversed())
		co.Execute64(c.F[0], &sol)
		out = append(out, sol)
	case "ClipperOffset.DeltaCallback":
		co := c2.NewClipperOffset(c.F[1], c.F[2], c.Bo[0], c.Bo[1])
		co.AddPaths(c.A, jt, et)
		base := c.F[0]
		var cb c2.DeltaCallbackFunc = func(path *c2.Path64, norms *c2.PathD, cur, prev uint8) float64 {
			return base * float64(1+int(cur)%3) / 2
		}
		co.SetDeltaCallback(&cb)
		sol := Paths{}
		co.Execute64(1, &sol)
		out = append(out, sol)
	case "ClipperOffset.SharedDeltaCallback":
		// one callback variable handed (by pointer, as the API wants it) to every offsetter: a
		// shared read-only input like the path slices; it is a pure function of its arguments
		co := c2.NewClipperOffset(c.F[1], c.F[2], c.Bo[0], c.Bo[1])
		co.AddPaths(c.A, jt, et)
		co.SetDeltaCallback(&sharedDeltaCallback)
		sol := Paths{}
		co.Execute64(1, &sol)
		out = append(out, sol)
	case "NewGroup":
		g := c2.NewGroup(c.A, jt, et)
		idx, neg := g.GetLowestPathInfo()
		out = append(out, idx, neg)
	case "MinkowskiSum64":
		out = append(out, c2.MinkowskiSum64(cap16(first(c.A)), cap16(first(c.B)), c.Bo[0]))
	case "MinkowskiDiff64":
		out = append(out, c2.MinkowskiDiff64(cap16(first(c.A)), cap16(first(c.B)), c.Bo[0]))
	case "MinkowskiSumD":
		out = append(out, c2.MinkowskiSumD(cap16D(firstD(c.ad())), cap16D(firstD(c.bd())), c.Bo[0], c.Prec))
	case "MinkowskiDiffD":
		out = append(out, c2.MinkowskiDiffD(cap16D(firstD(c.ad())), cap16D(firstD(c.bd())), c.Bo[0], c.Prec))
	case "RectClipPaths64":
		out = append(out, c2.RectClipPaths64(c.Rect.rect(), c.A))
	case "RectClipPath64":
		out = append(out, c2.RectClipPath64(c.Rect.rect(), first(c.A)))
	case "RectClipPathsD":
		out = append(out, c2.RectClipPathsD(c.rectD(), c.ad(), c.Prec))
	case "RectClipPathD":
		out = append(out, c2.RectClipPathD(c.rectD(), firstD(c.ad())))
	case "RectClip64.Execute":
		rc := c2.NewRectClip64(c.Rect.rect())
		out = append(out, rc.Execute(c.A), rc.Execute(c.B))
	case "RectClipLinesPaths64":
		out = append(out, c2.RectClipLinesPaths64(c.Rect.rect(), c.A))
	case "RectClipLinesPath64":
		out = append(out, c2.RectClipLinesPath64(c.Rect.rect(), first(c.A)))
	case "RectClipLinesPathsD":
		out = append(out, c2.RectClipLinesPathsD(c.rectD(), c.ad(), c.Prec))
	case "RectClipLinesPathD":
		out = append(out, c2.RectClipLinesPathD(c.rectD(), firstD(c.ad())))
	case "RectClipLines64.Execute":
		rc := c2.NewRectClipLines64(c.Rect.rect())
		out = append(out, rc.Execute(c.A), rc.Execute(c.B))
	case "SimplifyPath64":
		out = append(out, c2.SimplifyPath64(first(c.A), c.F[0], c.Bo[0]))
	case "SimplifyPaths64":
		out = append(out, c2.SimplifyPaths64(c.A, c.F[0], c.Bo[0]))
	case "SimplifyPathD":
		out = append(out, c2.SimplifyPathD(firstD(c.ad()), c.F[0], c.Bo[0]))
	case "SimplifyPathsD":
		out = append(out, c2.SimplifyPathsD(c.ad(), c.F[0], c.Bo[0]))
	case "TrimCollinear64":
		out = append(out, c2.TrimCollinear64(first(c.A), c.Bo[0]))
	case "TrimCollinearD":
		out = append(out, c2.TrimCollinearD(firstD(c.ad()), c.Prec, c.Bo[0]))
	case "StripDuplicates":
		out = append(out, c2.StripDuplicates(first(c.A), c.Bo[0]))
	case "Area64":
		out = append(out, c2.Area64(first(c.A)))
	case "AreaPaths64":
		out = append(out, c2.AreaPaths64(c.A))
	case "AreaD":
		out = append(out, c2.AreaD(firstD(c.ad())))
	case "AreaPathsD":
		out = append(out, c2.AreaPathsD(c.ad()))
	case "IsPositive64":
		out = append(out, c2.IsPositive64(first(c.A)))
	case "IsPositiveD":
		out = append(out, c2.IsPositiveD(firstD(c.ad())))
	case "GetBounds64":
		out = append(out, c2.GetBounds64(first(c.A)))
	case "PointInPolygon":
		out = append(out, c2.PointInPolygon(c.Q, first(c.A)))
	case "Path2ContainsPath1":
		out = append(out, c2.Path2ContainsPath1(first(c.A), first(c.B)))
	case "Ellipse64":
		r := math.Min(math.Abs(c.F[0]), 1e9)
		if c.F[0] < 0 {
			r = -r
		}
		out = append(out, c2.Ellipse64(c.Q, r, c.F[1], c.I))
	case "EllipseD":
		r := math.Min(math.Abs(c.F[0]), 1e9)
		out = append(out, c2.EllipseD(c2.PointD{X: float64(c.Q.X), Y: float64(c.Q.Y)}, r, c.F[1], c.I))
	case "ScaleAndConvert":
		s := c.F[1]
		out = append(out, c2.ScalePath64(first(c.A), s), c2.ScalePathD(firstD(c.ad()), s), c2.ScalePathDToPath64(firstD(c.ad()), s), c2.ScalePath64ToPathD(first(c.A), s),
			c2.ScalePathsDToPaths64(c.ad(), s), c2.ScalePaths64ToPathsD(c.A, s), c2.PathDToPath64(firstD(c.ad())), c2.PathsDToPaths64(c.ad()), c2.Path64ToPathD(first(c.A)), c2.Paths64ToPathsD(c.A),
			c2.ScaleRect64(c.Rect.rect(), s), c2.ScaleRectD(c.rectD(), s))
	case "Translate":
		dx, dy := c.Q.X%1000, c.Q.Y%1000
		out = append(out, c2.TranslatePath64(first(c.A), dx, dy), c2.TranslatePaths64(c.A, dx, dy), c2.OffsetPath(first(c.A), dx, dy),
			c2.TranslatePathD(firstD(c.ad()), float64(dx), c.F[0]), c2.TranslatePathsD(c.ad(), float64(dx), c.F[0]), c2.ReversePath(first(c.A)))
	case "RectMethods":
		r, r2 := c.Rect.rect(), c2.NewRect64(c.Q.X, c.Q.Y, c.Q.X+int64(c.I), c.Q.Y+int64(c.I))
		rd, rd2 := c.rectD(), c2.NewRectD(c.F[0], c.F[1], c.F[2], 1)
		inv, invD := c2.NewRect64Invalid(c.Bo[0]), c2.NewRectDInvalid(c.Bo[1])
		out = append(out, r.IsEmpty(), r.IsInvalid(), r.MidPoint(), r.Contains(r2), r.Intersects(r2), r.AsPath(), inv.IsEmpty(), inv.IsInvalid(),
			rd.IsEmpty(), rd.IsInvalid(), rd.MidPoint(), rd.Contains(rd2), rd.Intersects(rd2), rd.AsPath(), invD.IsEmpty())
	case "PointMethods":
		p, q := c.Q, P{X: int64(c.I), Y: c.Q.X}
		pd := c2.PointD{X: c.F[0], Y: c.F[1]}
		pd2 := pd
		pd2.Scale(c.F[2])
		pd2.Negate()
		p2 := p
		p2.Add(q)
		p2.Sub(p)
		out = append(out, c2.NewFloatPoint64(c.F[0], c.F[1]), p.ToPointD(), p.ToPointDScale(c.F[2]), p.Equals(q), p.NEquals(q), p.ToPoint64(pd), p2,
			pd.ToPoint64(), pd.ToPoint64Scale(c.F[2]), pd.Equals(pd2), pd.NEquals(pd2), pd2, c2.PointsNearEqual(pd, pd2, c.F[2]), c2.CrossProduct(p, q, p2), c2.IsOdd(c.I),
			c2.PerpendicDistFromLineSqr64(p, q, p2), c2.PerpendicDistFromLineSqrD(pd, pd2, pd))
	case "PolyPathAPI":
		tr := c2.BooleanOpPolyTree64(c2.Union, c.A, nil, c2.EvenOdd)
		s := tr.ToString()
		var walk func(n *c2.PolyPathBase) int
		walk = func(n *c2.PolyPathBase) int {
			k := n.Count() + n.Level()
			if n.IsHole() {
				k++
			}
			k += len(n.Polygon()) + len(n.ToStringInternal(0, n.Level()))
			for _, ch := range n.GetChildren() {
				k += walk(ch)
			}
			return k
		}
		out = append(out, len(s), walk(tr.PolyPathBase))
		nb := c2.NewPolyPathBase(nil)
		ch := nb.AddChild(first(c.A))
		ch.SetScale(c.F[0])
		out = append(out, ch.Scale(), ch.Level(), nb.Count())
		nb.Clear()
		out = append(out, nb.Count())
	case "Misc":
		out = append(out, c2.MakePath64(c.Q.X, c.Q.Y, 3), c2.MakePathD(c.F[0], c.F[1], c.F[2]), c2.MakePath64(), c2.MakePathD())
	default:
		panic("unknown API function " + c.Fn)
	}
	res.Fingerprint = fmt.Sprintf("%v", out)
	return res
}

func b2u(b bool) uint8 {
	if b {
		return 1
	}
	return 0
}

func treeFingerprint(n *c2.PolyPathBase) string {
	s := fmt.Sprintf("%v[", n.Polygon())
	for _, ch := range n.GetChildren() {
		s += treeFingerprint(ch) + ","
	}
	return s + "]"
}

// inputsOf returns deep copies of every caller-owned slice of the call.
func (c *APICall) snapshot() (Paths, Paths) {
	return cloneKeepNil(c.A), cloneKeepNil(c.B)
}

func cloneKeepNil(ps Paths) Paths {
	if ps == nil {
		return nil
	}
	r := make(Paths, len(ps))
	for i, p := range ps {
		if p != nil {
			r[i] = append(make(Path, 0, len(p)), p...)
		}
	}
	return r
}

func samePathsStrict(a, b Paths) bool {
	if (a == nil) != (b == nil) || len(a) != len(b) {
		return false
	}
	for i := range a {
		if (a[i] == nil) != (b[i] == nil) || len(a[i]) != len(b[i]) {
			return false
		}
		for j := range a[i] {
			if a[i][j] != b[i][j] {
				return false
			}
		}
	}
	return true
}

// cap16 bounds the operands of a Minkowski call: pattern x path parallelograms are united, and
// 60 x 60 random points take close to a minute - longer than the watchdog of C03 allows.
// (A resource-shaped precondition; the sub-slice shares the caller's buffer.)
func cap16(p Path) Path {
	if len(p) > 16 {
		return p[:16]
	}
	return p
}

func cap16D(p c2.PathD) c2.PathD {
	if len(p) > 16 {
		return p[:16]
	}
	return p
}

// sharedDeltaCallback is never written by the harness after initialisation.
var sharedDeltaCallback c2.DeltaCallbackFunc = func(path *c2.Path64, norms *c2.PathD, cur, prev uint8) float64 {
	return 7.5 * float64(1+int(cur)%3) / 2
}
