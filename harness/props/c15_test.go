package props

import (
	"testing"

	c2 "github.com/bolom009/go-clipper2"
	"pgregory.net/rapid"

	"verifharness/kit"
)

// C15Case: one TrimCollinear64 call.
type C15Case struct {
	Path   Path `json:"path"`
	IsOpen bool `json:"is_open"`
}

// drawRunPath builds a path from collinear runs, spikes, duplicates, unit steps and
// generic points, then rotates it so that runs may span index 0.
// mag selects the coordinate range: 0 = +-60, 1 = +-2^26, 2 = +-2^40, 3 = +-2^60 (the exact
// collinearity test multiplies differences in 128 bits, so the statement has no magnitude bound).
func drawRunPath(t *rapid.T, lo, hi int, mag int) Path {
	n := rapid.IntRange(lo, hi).Draw(t, "n")
	R := []int64{60, maxC / 8, 1 << 40, 1 << 60}[mag]
	big := mag > 0
	clampC := func(v int64) int64 { return clampR(v, R) }
	pt := func() P {
		return P{X: rapid.Int64Range(-R, R).Draw(t, "x"), Y: rapid.Int64Range(-R, R).Draw(t, "y")}
	}
	var p Path
	for len(p) < n {
		switch k := rapid.IntRange(0, 9).Draw(t, "seg"); {
		case k <= 2 && len(p) > 0: // collinear run from the last point
			a := p[len(p)-1]
			dx, dy := rapid.Int64Range(-7, 7).Draw(t, "dx"), rapid.Int64Range(-7, 7).Draw(t, "dy")
			if big {
				dx, dy = dx*rapid.Int64Range(1, R>>6).Draw(t, "mul"), dy*rapid.Int64Range(1, R>>6).Draw(t, "mul2")
			}
			m := rapid.IntRange(1, 3).Draw(t, "runLen")
			for j := 0; j < m && len(p) < n; j++ {
				s := rapid.Int64Range(-3, 4).Draw(t, "k") // negative = spike back along the line
				a = P{X: clampC(a.X + s*dx), Y: clampC(a.Y + s*dy)}
				p = append(p, a)
			}
		case k == 3 && len(p) > 0: // duplicate
			p = append(p, p[len(p)-1])
		case k == 4 && len(p) > 0: // unit step
			a := p[len(p)-1]
			p = append(p, P{X: clampC(a.X + rapid.Int64Range(-1, 1).Draw(t, "ux")), Y: clampC(a.Y + rapid.Int64Range(-1, 1).Draw(t, "uy"))})
		case k == 6 && len(p) > 2: // walk the last stretch back exactly (a zero-width, possibly bent whisker)
			m := rapid.IntRange(2, min(5, len(p))).Draw(t, "retrace")
			tail := append(Path{}, p[len(p)-m:]...)
			for j := m - 2; j >= 0; j-- {
				p = append(p, tail[j])
			}
		case k == 5 && len(p) > 1: // return to an earlier vertex
			p = append(p, p[rapid.IntRange(0, len(p)-1).Draw(t, "back")])
		default:
			p = append(p, pt())
		}
	}
	if len(p) > 1 {
		r := rapid.IntRange(0, len(p)-1).Draw(t, "rot")
		p = append(append(Path{}, p[r:]...), p[:r]...)
	}
	return p
}

func isCyclicSubsequence(res, in Path, cyclic bool) bool {
	if len(res) == 0 {
		return true
	}
	n := len(in)
	starts := 1
	if cyclic {
		starts = n
	}
	for s := 0; s < starts; s++ {
		j := 0
		for i := 0; i < n && j < len(res); i++ {
			if in[(s+i)%n] == res[j] {
				j++
			}
		}
		if j == len(res) {
			return true
		}
	}
	return false
}

func unitDiffPresent(p Path) bool {
	for i := range p {
		for j := range p {
			if i != j && (p[i].X-p[j].X == 1 || p[i].Y-p[j].Y == 1) {
				return true
			}
		}
	}
	return false
}

func judgeC15(c *C15Case, cx *Ctx) *Violation {
	in := append(Path{}, c.Path...)
	res := c2.TrimCollinear64(c.Path, c.IsOpen)
	v := judgeTrim(c, in, res)
	removed := len(in) - len(res)
	inClass := unitDiffPresent(in)
	if v != nil {
		if inClass && kfActive("C15", "class:unit-operand") {
			cx.St.Count("mismatch_attributed_to_listed_class_unit_operand", 1)
			cx.St.Eval(c, true, "attributed:unit-operand", boolLabel("open", c.IsOpen))
			return nil
		}
		return v
	}
	dom := "domain:strict"
	if inClass {
		dom = "domain:unit-difference-present"
	}
	cx.St.Eval(c, removed > 0 && len(res) > 0, boolLabel("open", c.IsOpen), dom, removedLabel(removed, len(res)))
	return nil
}

func removedLabel(removed, kept int) string {
	switch {
	case kept == 0:
		return "result:empty"
	case removed == 0:
		return "result:unchanged"
	}
	return "result:trimmed"
}

func judgeTrim(c *C15Case, in, res Path) *Violation {
	if !isCyclicSubsequence(res, in, !c.IsOpen) {
		return violf("TrimCollinear64(%v, open=%v) = %v is not a sub-sequence of the input", in, c.IsOpen, res)
	}
	probes := kit.Probes([]Paths{{in}}, kit.ProbeOpt{Closed: !c.IsOpen, Max: 1500})
	if c.IsOpen {
		if len(in) >= 2 && in[0] != in[1] || len(in) > 2 {
			// (the two-equal-points and <2-point inputs are returned empty by design)
			if len(in) >= 2 && !(len(in) == 2 && in[0] == in[1]) {
				if len(res) < 2 && !(allEqual(in)) {
					return violf("TrimCollinear64(open %v) = %v dropped an end point", in, res)
				}
				if len(res) >= 2 && (res[0] != in[0] || res[len(res)-1] != in[len(in)-1]) {
					return violf("TrimCollinear64(open %v) = %v does not keep both end points", in, res)
				}
			}
		}
		if len(res) >= 2 {
			for _, q := range probes {
				w1, on := kit.WindOpen(in, q)
				if on {
					continue
				}
				w2, _ := kit.WindOpen(res, q)
				if w1 != w2 {
					return violf("TrimCollinear64(open %v) = %v removed a vertex that was not exactly collinear: ray crossing number at %v changed from %d to %d", in, res, q, w1, w2)
				}
			}
		}
		return nil
	}
	// closed
	if len(res) != 0 && len(res) < 3 {
		return violf("TrimCollinear64(closed %v) = %v has fewer than 3 vertices but is not empty", in, res)
	}
	if kit.Area2(in).Cmp(kit.Area2(res)) != 0 {
		return violf("TrimCollinear64(closed %v) = %v changes the exact doubled area from %v to %v", in, res, kit.Area2(in), kit.Area2(res))
	}
	for _, q := range probes {
		w1, on := kit.WindPath(in, q)
		if on {
			continue
		}
		w2, _ := kit.WindPath(res, q)
		if w1 != w2 {
			return violf("TrimCollinear64(closed %v) = %v changes the winding number at %v from %d to %d", in, res, q, w1, w2)
		}
	}
	n := len(res)
	for i := 0; i < n; i++ {
		a, b, d := res[(i+n-1)%n], res[i], res[(i+1)%n]
		if kit.CrossBig(a, b, d).Sign() == 0 {
			return violf("TrimCollinear64(closed %v) = %v still has the exactly collinear triple %v %v %v", in, res, a, b, d)
		}
	}
	if n > 0 {
		again := c2.TrimCollinear64(res, false)
		if !kit.PathsEqual(Paths{again}, Paths{res}) {
			return violf("TrimCollinear64 is not idempotent: %v -> %v -> %v", in, res, again)
		}
	}
	return nil
}

func allEqual(p Path) bool {
	for _, v := range p {
		if v != p[0] {
			return false
		}
	}
	return true
}

func init() {
	defProp("C15",
		"rapid-generated closed and open paths of 0-14 points built from collinear runs (also backwards = 180-degree spikes), duplicates, unit steps, returns to earlier vertices and generic points, coordinates within +-60, +-2^26, +-2^40 or +-2^60, rotated so that runs span index 0; validity predicate: cyclic/ordinary sub-sequence, (closed) exact doubled area unchanged, winding number unchanged at probes off the input boundary, no exactly collinear cyclic triple left, empty or >= 3 vertices, idempotent; (open) both end points kept and the signed ray-crossing number of the polyline unchanged at probes off the trace; non-trivial = at least one vertex removed and at least one kept",
		[]string{"open paths: the statement only demands that end points are kept and that only exactly collinear vertices disappear; the latter is judged through the invariance of signed ray-crossing numbers at probe points (centroids of consecutive triples included)"},
		func(t *rapid.T) *C15Case {
			return &C15Case{Path: drawRunPath(t, 0, 14, rapid.SampledFrom([]int{0, 0, 0, 1, 2, 3}).Draw(t, "mag")), IsOpen: rapid.IntRange(0, 2).Draw(t, "open") == 0}
		}, judgeC15)
}

func TestC15(t *testing.T) { runProp(t, "C15") }
