package props

import (
	"testing"

	c2 "github.com/bolom009/go-clipper2"
	"pgregory.net/rapid"

	"verifharness/kit"
)

// C17Case: a boolean case plus a spelling transform.
type C17Case struct {
	C01Case
	Call      *APICall `json:"call,omitempty"` // transform "apicall": any API call, executed twice
	Transform string   `json:"transform"`      // permute | rotate | repeat | reverse | swap | symmetry | apicall
	Seed      uint64 `json:"seed"`      // parameter stream of the transform (pure function of it)
	Sym       int    `json:"sym"`       // 0..7 for symmetry
}

type lcg struct{ s uint64 }

func (l *lcg) next(n int) int {
	l.s = l.s*6364136223846793005 + 1442695040888963407
	if n <= 0 {
		return 0
	}
	return int((l.s >> 33) % uint64(n))
}

func symPoint(k int, p P) P {
	switch k {
	case 0:
		return p
	case 1:
		return P{X: -p.Y, Y: p.X} // rotate 90
	case 2:
		return P{X: -p.X, Y: -p.Y} // rotate 180
	case 3:
		return P{X: p.Y, Y: -p.X} // rotate 270
	case 4:
		return P{X: -p.X, Y: p.Y} // mirror X
	case 5:
		return P{X: p.X, Y: -p.Y} // mirror Y
	case 6:
		return P{X: p.Y, Y: p.X} // transpose
	default:
		return P{X: -p.Y, Y: -p.X} // anti-transpose
	}
}

func mapPaths(ps Paths, f func(P) P) Paths {
	if ps == nil {
		return nil
	}
	r := make(Paths, len(ps))
	for i, p := range ps {
		r[i] = make(Path, len(p))
		for j, v := range p {
			r[i][j] = f(v)
		}
	}
	return r
}

func swapPosNeg(fr c2.FillRule) c2.FillRule {
	switch fr {
	case c2.Positive:
		return c2.Negative
	case c2.Negative:
		return c2.Positive
	}
	return fr
}

// applyTransform returns the transformed inputs, the fill rule to use and the point map.
func applyTransform(c *C17Case) (subj, clip Paths, fr c2.FillRule, T func(P) P, applied string) {
	subj, clip, fr = kit.ClonePaths(c.Subj), kit.ClonePaths(c.Clip), c.FR
	T = func(p P) P { return p }
	r := &lcg{s: c.Seed}
	applied = c.Transform
	permute := func(ps Paths) {
		for i := len(ps) - 1; i > 0; i-- {
			j := r.next(i + 1)
			ps[i], ps[j] = ps[j], ps[i]
		}
	}
	switch c.Transform {
	case "permute":
		permute(subj)
		permute(clip)
	case "rotate":
		for _, ps := range []Paths{subj, clip} {
			for i, p := range ps {
				if len(p) > 1 {
					k := r.next(len(p))
					ps[i] = append(append(Path{}, p[k:]...), p[:k]...)
				}
			}
		}
	case "repeat":
		for _, ps := range []Paths{subj, clip} {
			for i, p := range ps {
				if len(p) == 0 {
					continue
				}
				q := Path{}
				for j, v := range p {
					q = append(q, v)
					if r.next(4) == 0 {
						q = append(q, v)
					}
					if j == len(p)-1 && r.next(2) == 0 {
						q = append(q, p[0]) // explicit closing vertex
					}
				}
				ps[i] = q
			}
		}
	case "reverse":
		switch c.FR {
		case c2.EvenOdd: // any single path
			all := len(subj) + len(clip)
			if all > 0 {
				k := r.next(all)
				if k < len(subj) {
					subj[k] = c2.ReversePath(subj[k])
				} else {
					clip[k-len(subj)] = c2.ReversePath(clip[k-len(subj)])
				}
			}
		default: // all paths; Positive <-> Negative
			for i := range subj {
				subj[i] = c2.ReversePath(subj[i])
			}
			for i := range clip {
				clip[i] = c2.ReversePath(clip[i])
			}
			fr = swapPosNeg(c.FR)
		}
	case "swap":
		if c.CT == c2.Difference || clip == nil {
			applied = "swap-not-applicable"
		} else {
			subj, clip = clip, subj
		}
	case "symmetry":
		k := c.Sym
		T = func(p P) P { return symPoint(k, p) }
		subj, clip = mapPaths(subj, T), mapPaths(clip, T)
		if k >= 4 { // reflections negate winding numbers
			fr = swapPosNeg(c.FR)
		}
	}
	return
}

func judgeC17(c *C17Case, cx *Ctx) *Violation {
	if c.Transform == "apicall" {
		// calling any operation twice with equal inputs yields identical outputs
		first := *c.Call
		second := *c.Call
		second.A, second.B = cloneKeepNil(c.Call.A), cloneKeepNil(c.Call.B)
		r1 := first.Run()
		r2 := second.Run()
		if r1.Fingerprint != r2.Fingerprint || (r1.Panic == nil) != (r2.Panic == nil) || r1.ExecFalse != r2.ExecFalse {
			return violf("%s returned different results for two calls with equal inputs: %.400s ... vs %.400s ...", c.Call.Fn, r1.Fingerprint, r2.Fingerprint)
		}
		cx.St.Eval(c, countVerts(c.Call.A)+countVerts(c.Call.B) >= 3, "transform:apicall", "fn:"+c.Call.Fn)
		return nil
	}
	sol, evs := runBoolean(0, c.CT, c.FR, c.Subj, c.Clip)
	// determinism: the same call again, on copies of the inputs
	again := c2.BooleanOpPaths64(c.CT, kit.ClonePaths(c.Subj), kit.ClonePaths(c.Clip), c.FR)
	if !kit.PathsEqual(sol, again) {
		return violf("two identical calls returned different results: %v vs %v", sol, again)
	}
	subj2, clip2, fr2, T, applied := applyTransform(c)
	sol2, evs2 := runBoolean(0, c.CT, fr2, subj2, clip2)
	pooled := append(append([]c2.VerifEvent{}, evs...), mapEvents(evs2, T, c)...)
	inputs := append(append(Paths{}, c.Subj...), c.Clip...)
	inClass, why := kit.NearDegenerate([]Paths{inputs}, true, nearTol)
	probes := kit.Probes([]Paths{c.Subj, c.Clip}, kit.ProbeOpt{Closed: true, Extra: c.Extra})
	judged, att, nIn, nOut := 0, 0, 0, 0
	for _, q := range probes {
		if !kit.FarFrom(q, inputs, true, band) {
			continue
		}
		judged++
		w1, on1 := kit.Wind(sol, q)
		w2, on2 := kit.Wind(sol2, T(q))
		if w1 != 0 {
			nIn++
		} else {
			nOut++
		}
		if !on1 && !on2 && (w1 != 0) == (w2 != 0) {
			continue
		}
		if k := attribute(q, pooled); k != "" && kfActive("C17", kfKeyForEvent(k)) {
			att++
			continue
		}
		if inClass && kfActive("C17", "class:near-degenerate") {
			att++
			continue
		}
		return violf("spelling transform %q changes the region at %v (image %v): winding %d (on edge %v) before, %d (on edge %v) after; %s/%s; sol=%v sol'=%v events=%s",
			applied, q, T(q), w1, on1, w2, on2, ctName(c.CT), frName(c.FR), sol, sol2, fmtEvents(pooled))
	}
	dom := "domain:strict"
	if inClass {
		dom = "domain:near-degenerate(" + why + ")"
	}
	cx.St.Eval(c, nIn > 0 && nOut > 0 && hasTie(inputs), c.Fam.Label(), "transform:"+applied, dom, "op:"+ctName(c.CT)+"/"+frName(c.FR))
	cx.St.Count("probes_judged", int64(judged))
	cx.St.Count("mismatch_attributed", int64(att))
	return nil
}

// mapEvents maps the events of the transformed run back into the frame of the original
// (symmetries are involutions up to rotation direction; the inverse is applied).
func mapEvents(evs []c2.VerifEvent, T func(P) P, c *C17Case) []c2.VerifEvent {
	if c.Transform != "symmetry" {
		return evs
	}
	inv := map[int]int{0: 0, 1: 3, 2: 2, 3: 1, 4: 4, 5: 5, 6: 6, 7: 7}[c.Sym]
	out := make([]c2.VerifEvent, len(evs))
	for i, e := range evs {
		pts := make(Path, len(e.Pts))
		for j, v := range e.Pts {
			pts[j] = symPoint(inv, v)
		}
		out[i] = c2.VerifEvent{Kind: e.Kind, Pts: pts}
	}
	return out
}

// hasTie: the input has something a spelling change can disturb: a horizontal edge, two
// vertices at the same Y that are local extremes, or an exact coincidence between paths.
func hasTie(all Paths) bool {
	ys := map[int64]int{}
	for _, p := range all {
		n := len(p)
		for i := 0; i < n; i++ {
			a, b := p[i], p[(i+1)%n]
			if a != b && a.Y == b.Y {
				return true
			}
			ys[a.Y]++
		}
	}
	for _, k := range ys {
		if k > 1 {
			return true
		}
	}
	return hasInteraction(all)
}

func init() {
	defProp("C17",
		"C01's generator plus one spelling transform drawn by rapid (one case in five is instead a call of the C03 API grammar executed twice on equal inputs, whose %v-printed results must be identical): permutation of the paths of each set, start rotation of every path, repeated vertices / explicit closing vertex, reversal of one path (EvenOdd) or of all paths (NonZero; Positive<->Negative), exchange of subject and clip (Union, Intersection, Xor), one of the 8 symmetries of the square lattice (reflections exchange Positive and Negative because they negate winding numbers); oracle: identical calls return identical output, and wind(result', T(q)) != 0 <=> wind(result, q) != 0 at probes farther than 2.001 from all input edges; non-trivial = probes inside and outside and the input contains a tie (horizontal edge, equal Y of two vertices, crossing or coincidence)",
		[]string{"events of both executions are pooled for call-site attribution"},
		func(t *rapid.T) *C17Case {
			if rapid.IntRange(0, 4).Draw(t, "apicall") == 0 {
				return &C17Case{Transform: "apicall", Call: drawAPICall(t)}
			}
			c := &C17Case{C01Case: *drawBoolCase(t, drawFamily(t))}
			c.Entry = 0
			c.Transform = rapid.SampledFrom([]string{"permute", "rotate", "repeat", "reverse", "swap", "symmetry"}).Draw(t, "transform")
			c.Seed = rapid.Uint64().Draw(t, "tseed")
			c.Sym = rapid.IntRange(1, 7).Draw(t, "sym")
			return c
		}, judgeC17)
}

func TestC17(t *testing.T) { runProp(t, "C17") }
