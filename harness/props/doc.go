// Package props holds one generated check per listed property (C01..C19). Everything lives
// in _test.go files: the package is only ever built as a test binary (go test -c).
package props
