package props

import (
	"errors"
	"fmt"
	"math"
	"testing"

	c2 "github.com/bolom009/go-clipper2"
	"pgregory.net/rapid"

	"verifharness/kit"
)

// C07Case: one floating-point entry point compared with its 64-bit counterpart.
// Coordinates are given as integer intents n; the float input is (n+f)/10^p with a
// deterministic fraction |f| <= 0.45 derived from FracSeed (0 = no fractions).
type C07Case struct {
	Op       string      `json:"op"`
	Prec     int         `json:"prec"` // 99 = use the default (2) by not passing a precision
	Subj     Paths       `json:"subj"` // or the pattern / the paths to clip / the path to trim
	Clip     Paths       `json:"clip"` // or the Minkowski path
	Rect     RectJ       `json:"rect"` // rect clip intents
	CT       c2.ClipType `json:"ct"`
	FR       c2.FillRule `json:"fr"`
	Delta    float64     `json:"delta"`   // inflate, in float units
	ArcTol   float64     `json:"arc_tol"` // inflate, in float units
	Join     c2.JoinType `json:"join"`
	End      c2.EndType  `json:"end"`
	Closed   bool        `json:"closed"`    // minkowski isClosed / trim !isOpen
	FracSeed uint64      `json:"frac_seed"` // 0: exact multiples
}

var c07Ops = []string{"boolop", "wrapper", "engine", "engineOC", "polytree", "polytreeOC", "engineScaleFn", "inflate", "minkSum", "minkDiff",
	"rectclip", "rectclipSingle", "rectlines", "rectlinesSingle", "rectTies", "rectlinesTies", "trim", "badPrecision"}

func drawC07(t *rapid.T) *C07Case {
	c := &C07Case{Op: rapid.SampledFrom(c07Ops).Draw(t, "op")}
	c.Prec = rapid.SampledFrom([]int{2, 99, 0, 1, -1, 3, 5, 8, -8, -4, 7, -7, 4, 6, -2, -3, -5, -6}).Draw(t, "prec") // all 17 + default
	if c.Op == "rectclipSingle" || c.Op == "rectlinesSingle" {
		c.Prec = 99 // these entry points take no precision
	}
	if c.Op == "badPrecision" {
		c.Prec = rapid.SampledFrom([]int{9, -9, 100, -100, 17}).Draw(t, "badPrec")
	}
	if c.Op == "rectTies" || c.Op == "rectlinesTies" {
		c.Prec = rapid.SampledFrom([]int{0, 1, 2, 3, 99}).Draw(t, "tiePrec")
	}
	R := rapid.SampledFrom([]int64{50, 5000, 3000000, 1 << 28}).Draw(t, "R")
	f := Family{Kind: "g1", R: R, Spread: rapid.Bool().Draw(t, "spread")}
	c.Subj = drawClosedPaths(t, f, 1, 2, "subj")
	c.Clip = drawClosedPaths(t, f, 1, 2, "clip")
	c.CT = rapid.SampledFrom(allClipTypes).Draw(t, "ct")
	c.FR = rapid.SampledFrom(allFillRules).Draw(t, "fr")
	c.Rect = drawRect(t, R)
	c.Join = rapid.SampledFrom([]c2.JoinType{c2.Miter, c2.Square, c2.Bevel, c2.Round}).Draw(t, "join")
	c.End = rapid.SampledFrom([]c2.EndType{c2.Polygon, c2.Joined, c2.Butt, c2.SquareET, c2.RoundET}).Draw(t, "end")
	c.Closed = rapid.Bool().Draw(t, "closed")
	if rapid.IntRange(0, 3).Draw(t, "fractions") > 0 {
		c.FracSeed = rapid.Uint64Range(1, 1<<40).Draw(t, "fracSeed")
	}
	p := c.Prec
	if p == 99 {
		p = 2
	}
	// delta and arc tolerance in float units: integer-unit values divided by the scale
	du := rapid.Float64Range(-float64(R)/4, float64(R)/4).Draw(t, "deltaUnits")
	c.Delta = du / math.Pow(10, float64(p))
	if rapid.Bool().Draw(t, "withArcTol") {
		c.ArcTol = rapid.Float64Range(0.25, 50).Draw(t, "arcUnits") / math.Pow(10, float64(p))
	}
	return c
}

func (c *C07Case) prec() int {
	if c.Prec == 99 {
		return 2
	}
	return c.Prec
}

// toFloat converts intents to the float inputs (n+f)/10^p, keeping f only when the float
// product x*10^p provably rounds to n (no tie, |x*10^p - n| <= 0.49).
func (c *C07Case) toFloat(ps Paths, salt uint64) c2.PathsD {
	if ps == nil {
		return nil
	}
	scale := math.Pow(10, float64(c.prec()))
	r := &lcg{s: c.FracSeed ^ salt}
	out := make(c2.PathsD, len(ps))
	conv := func(n int64) float64 {
		fr := 0.0
		if c.FracSeed != 0 {
			fr = (float64(r.next(901))/1000 - 0.45)
		}
		x := (float64(n) + fr) / scale
		if math.Abs(x*scale-float64(n)) > 0.49 {
			x = float64(n) / scale
		}
		return x
	}
	for i, p := range ps {
		out[i] = make(c2.PathD, len(p))
		for j, v := range p {
			out[i][j] = c2.PointD{X: conv(v.X), Y: conv(v.Y)}
		}
	}
	return out
}

func (c *C07Case) rectFloat() c2.RectD {
	ps := c.toFloat(Paths{{{X: c.Rect.L, Y: c.Rect.T}, {X: c.Rect.R, Y: c.Rect.B}}}, 77)
	return c2.NewRectD(ps[0][0].X, ps[0][0].Y, ps[0][1].X, ps[0][1].Y)
}

func precArgs(c *C07Case) []int {
	if c.Prec == 99 {
		return nil
	}
	return []int{c.Prec}
}

// sameScaled compares a D result with a 64-bit result divided by the scale.
func sameScaled(got c2.PathsD, want Paths, scale float64) string {
	if len(got) != len(want) {
		return fmt.Sprintf("%d paths, the 64-bit counterpart returns %d", len(got), len(want))
	}
	for i := range got {
		if len(got[i]) != len(want[i]) {
			return fmt.Sprintf("path %d has %d points, the 64-bit counterpart %d", i, len(got[i]), len(want[i]))
		}
		for j := range got[i] {
			ex, ey := float64(want[i][j].X)/scale, float64(want[i][j].Y)/scale
			if !withinUlps(got[i][j].X, ex, 4) || !withinUlps(got[i][j].Y, ey, 4) {
				return fmt.Sprintf("path %d point %d is (%v,%v), the 64-bit counterpart gives (%d,%d)/10^p = (%v,%v)", i, j, got[i][j].X, got[i][j].Y, want[i][j].X, want[i][j].Y, ex, ey)
			}
		}
	}
	return ""
}

// callExpectingPrecisionPanic runs f and reports how it ended.
func callExpectingPrecisionPanic(f func()) (panicked bool, isPrecisionErr bool, val any) {
	defer func() {
		if e := recover(); e != nil {
			panicked = true
			val = e
			if err, ok := e.(error); ok && errors.Is(err, c2.ErrPrecisionRange) {
				isPrecisionErr = true
			}
		}
	}()
	f()
	return
}

func judgeC07(c *C07Case, cx *Ctx) (v *Violation) {
	if c.Op == "badPrecision" {
		return judgeBadPrecision(c, cx)
	}
	p := c.prec()
	scale := math.Pow(10, float64(p))
	pa := precArgs(c)
	subjD, clipD := c.toFloat(c.Subj, 1), c.toFloat(c.Clip, 2)
	var got c2.PathsD
	var want Paths
	extra := ""
	switch c.Op {
	case "boolop":
		got = c2.BooleanOpPathsD(c.CT, subjD, clipD, c.FR, pa...)
		want = c2.BooleanOpPaths64(c.CT, c.Subj, c.Clip, c.FR)
	case "wrapper":
		switch c.CT {
		case c2.Union:
			if len(c.Clip)%2 == 0 {
				got = c2.UnionPathsD(subjD, c.FR, pa...)
				want = c2.UnionPaths64(c.Subj, c.FR)
			} else {
				got = c2.UnionWithClipPathsD(subjD, clipD, c.FR, pa...)
				want = c2.UnionWithClipPaths64(c.Subj, c.Clip, c.FR)
			}
		case c2.Intersection:
			got = c2.IntersectWithClipPathsD(subjD, clipD, c.FR, pa...)
			want = c2.IntersectWithClipPaths64(c.Subj, c.Clip, c.FR)
		case c2.Difference:
			got = c2.DifferenceWithClipPathsD(subjD, clipD, c.FR, pa...)
			want = c2.DifferenceWithClipPaths64(c.Subj, c.Clip, c.FR)
		default:
			got = c2.XorWithClipPathsD(subjD, clipD, c.FR, pa...)
			want = c2.XorWithClipPaths64(c.Subj, c.Clip, c.FR)
		}
	case "engine", "engineOC":
		e := c2.NewClipperD(p)
		e64 := c2.NewClipper64()
		open := c.Op == "engineOC"
		if open {
			e.AddPaths(subjD, c2.Subject, true)
			e64.AddPaths(c.Subj, c2.Subject, true)
		} else {
			e.AddPaths(subjD, c2.Subject, false)
			e64.AddPaths(c.Subj, c2.Subject, false)
		}
		e.AddPaths(clipD, c2.Clip, false)
		e64.AddPaths(c.Clip, c2.Clip, false)
		gc, gopen := c2.PathsD{}, c2.PathsD{}
		wc, wopen := Paths{}, Paths{}
		ok1 := e.ExecuteOC(c.CT, c.FR, &gc, &gopen)
		ok2 := e64.ExecuteOC(c.CT, c.FR, &wc, &wopen)
		if ok1 != ok2 {
			return violf("ClipperD(%d).ExecuteOC returned %v, Clipper64 %v", p, ok1, ok2)
		}
		if d := sameScaled(gopen, wopen, scale); d != "" {
			return violf("ClipperD(%d) open solution differs from Clipper64 on the quantised input: %s", p, d)
		}
		got, want = gc, wc
	case "engineScaleFn":
		// AddPathsWithScaleFunc / ExecuteWithScaleFunc with the library's own conversion functions
		e := c2.NewClipperD(p)
		e64 := c2.NewClipper64()
		open := c.Closed // reuse the flag: open or closed subjects
		e.AddPathsWithScaleFunc(subjD, c2.Subject, open, c2.ScalePathsDToPaths64)
		e64.AddPaths(c.Subj, c2.Subject, open)
		e.AddPathsWithScaleFunc(clipD, c2.Clip, false, c2.ScalePathsDToPaths64)
		e64.AddPaths(c.Clip, c2.Clip, false)
		gc, gopen := c2.PathsD{}, c2.PathsD{}
		wc, wopen := Paths{}, Paths{}
		ok1 := e.ExecuteWithScaleFunc(c.CT, c.FR, &gc, &gopen, c2.ScalePath64ToPathD)
		ok2 := e64.ExecuteOC(c.CT, c.FR, &wc, &wopen)
		if ok1 != ok2 {
			return violf("ClipperD(%d).ExecuteWithScaleFunc returned %v, Clipper64 %v", p, ok1, ok2)
		}
		if d := sameScaled(gopen, wopen, scale); d != "" {
			return violf("ClipperD(%d).ExecuteWithScaleFunc open solution differs from Clipper64 on the quantised input: %s", p, d)
		}
		got, want = gc, wc
	case "polytree":
		td := c2.BooleanOpPolyTreeD(c.CT, subjD, clipD, c.FR, pa...)
		t64 := c2.BooleanOpPolyTree64(c.CT, c.Subj, c.Clip, c.FR)
		if td.Scale() != scale {
			return violf("BooleanOpPolyTreeD(precision %d) has Scale() %v, expected %v", p, td.Scale(), scale)
		}
		a, b := flattenTree(td.PolyPathBase), flattenTree(t64.PolyPathBase)
		if len(a) != len(b) {
			return violf("BooleanOpPolyTreeD(precision %d) has %d nodes, BooleanOpPolyTree64 on the quantised input %d", p, len(a), len(b))
		}
		for i := range a {
			if a[i].parent != b[i].parent || !kit.PathsEqual(Paths{a[i].poly}, Paths{b[i].poly}) {
				return violf("BooleanOpPolyTreeD(precision %d) node %d differs from the 64-bit tree: %v (parent %d) vs %v (parent %d)", p, i, a[i].poly, a[i].parent, b[i].poly, b[i].parent)
			}
		}
		cx.St.Eval(c, p != 2 || c.FracSeed != 0, "op:"+c.Op, precLabel(c.Prec), boolLabel("fractions", c.FracSeed != 0))
		return nil
	case "polytreeOC":
		// engine objects, open subjects, tree form: tree AND open paths must be those of the 64-bit engine
		e := c2.NewClipperD(p)
		e64 := c2.NewClipper64()
		e.AddPaths(subjD, c2.Subject, true)
		e64.AddPaths(c.Subj, c2.Subject, true)
		e.AddPaths(clipD, c2.Clip, false)
		e64.AddPaths(c.Clip, c2.Clip, false)
		td, t64 := c2.NewPolyTreeD(), c2.NewPolyTree64()
		gopen, wopenD := c2.PathsD{}, c2.PathsD{}
		ok1 := e.ExecutePolyTreeD(c.CT, c.FR, td, &gopen)
		ok2 := e64.ExecutePolyTree64(c.CT, c.FR, t64, &wopenD)
		if ok1 != ok2 {
			return violf("ClipperD(%d).ExecutePolyTreeD returned %v, Clipper64.ExecutePolyTree64 %v", p, ok1, ok2)
		}
		wopen := make(Paths, len(wopenD))
		for i, pth := range wopenD {
			for _, q := range pth {
				if q.X != math.Round(q.X) || q.Y != math.Round(q.Y) {
					return violf("Clipper64.ExecutePolyTree64 returned a non-integer open-path coordinate %v", q)
				}
				wopen[i] = append(wopen[i], P{X: int64(q.X), Y: int64(q.Y)})
			}
		}
		if d := sameScaled(gopen, wopen, scale); d != "" {
			return violf("ClipperD(%d).ExecutePolyTreeD open paths differ from Clipper64.ExecutePolyTree64 on the quantised input: %s (D: %v, 64-bit: %v)", p, d, gopen, wopen)
		}
		// the open part must also be what the flat form of the 64-bit engine gives (C09 judges its geometry)
		e64b := c2.NewClipper64()
		e64b.AddPaths(c.Subj, c2.Subject, true)
		e64b.AddPaths(c.Clip, c2.Clip, false)
		fc, fo := Paths{}, Paths{}
		e64b.ExecuteOC(c.CT, c.FR, &fc, &fo)
		if d := sameScaled(gopen, fo, scale); d != "" {
			return violf("ClipperD(%d).ExecutePolyTreeD open paths differ from Clipper64.ExecuteOC's open solution on the quantised input: %s", p, d)
		}
		a, b := flattenTree(td.PolyPathBase), flattenTree(t64.PolyPathBase)
		if len(a) != len(b) {
			return violf("ExecutePolyTreeD(precision %d) has %d nodes, ExecutePolyTree64 on the quantised input %d", p, len(a), len(b))
		}
		for i := range a {
			if a[i].parent != b[i].parent || !kit.PathsEqual(Paths{a[i].poly}, Paths{b[i].poly}) {
				return violf("ExecutePolyTreeD(precision %d) node %d differs from the 64-bit tree", p, i)
			}
		}
		cx.St.Eval(c, len(gopen) > 0, "op:"+c.Op, precLabel(c.Prec), boolLabel("fractions", c.FracSeed != 0), boolLabel("open-result-nonempty", len(gopen) > 0))
		return nil
	case "inflate":
		opts := []c2.InflateOption{c2.WithArcTolerance(c.ArcTol)}
		opts64 := []c2.InflateOption{c2.WithArcTolerance(scale * c.ArcTol)}
		if c.Prec != 99 {
			opts = append(opts, c2.WithPrecision(c.Prec))
		}
		// the miter limit is a ratio: it must reach the integer offsetter unscaled
		ml := []float64{0, 1, 1.5, 3, 10}[c.FracSeed%5]
		if ml != 0 {
			opts, opts64 = append(opts, c2.WithMitterLimit(ml)), append(opts64, c2.WithMitterLimit(ml))
		}
		got = c2.InflatePathsD(subjD, c.Delta, c.Join, c.End, opts...)
		want = c2.InflatePaths64(c.Subj, c.Delta*scale, c.Join, c.End, opts64...)
		extra = fmt.Sprintf(" delta=%v arcTol=%v miterLimit=%v(0=default) join=%s end=%s", c.Delta, c.ArcTol, ml, joinName(c.Join), endName(c.End))
	case "minkSum", "minkDiff":
		// (pattern x path parallelograms are united: 60 x 60 random points take minutes, which the
		// framework's watchdog would report as a hang; 12 x 12 bounds the cost)
		pat, pth := subjD[0][:min(len(subjD[0]), 12)], c2.PathD{}
		pat64 := c.Subj[0][:min(len(c.Subj[0]), 12)]
		var pth64 Path
		if len(clipD) > 0 {
			pth, pth64 = clipD[0][:min(len(clipD[0]), 12)], c.Clip[0][:min(len(c.Clip[0]), 12)]
		}
		if c.Op == "minkSum" {
			got = c2.MinkowskiSumD(pat, pth, c.Closed, pa...)
			want = c2.MinkowskiSum64(pat64, pth64, c.Closed)
		} else {
			got = c2.MinkowskiDiffD(pat, pth, c.Closed, pa...)
			want = c2.MinkowskiDiff64(pat64, pth64, c.Closed)
		}
	case "rectclip":
		got = c2.RectClipPathsD(c.rectFloat(), subjD, pa...)
		want = c2.RectClipPaths64(c.Rect.rect(), c.Subj)
	case "rectclipSingle":
		got = c2.RectClipPathD(c.rectFloat(), subjD[0])
		want = c2.RectClipPath64(c.Rect.rect(), c.Subj[0])
	case "rectlines":
		got = c2.RectClipLinesPathsD(c.rectFloat(), subjD, pa...)
		want = c2.RectClipLinesPaths64(c.Rect.rect(), c.Subj)
	case "rectlinesSingle":
		got = c2.RectClipLinesPathD(c.rectFloat(), subjD[0])
		want = c2.RectClipLinesPath64(c.Rect.rect(), c.Subj[0])
	case "rectTies", "rectlinesTies":
		// "rectangle bounds are quantised like path coordinates": every coordinate is n/2^(p+1),
		// i.e. after scaling by 10^p an exact integer (n even) or an exact tie (n odd); all four
		// bounds are ties. "Nearest integer" leaves the tie rule open, so the reference quantises
		// bounds and vertices alike with the library's own path quantiser.
		den := float64(int64(1) << (p + 1))
		half := func(ps Paths) c2.PathsD {
			out := make(c2.PathsD, len(ps))
			for i, q := range ps {
				out[i] = make(c2.PathD, len(q))
				for j, v := range q {
					out[i][j] = c2.PointD{X: float64(v.X) / den, Y: float64(v.Y) / den}
				}
			}
			return out
		}
		l, tp, r, b := c.Rect.L|1, c.Rect.T|1, c.Rect.R|1, c.Rect.B|1
		if l >= r || tp >= b {
			cx.St.Eval(c, false, "op:"+c.Op, "skipped:empty-rectangle")
			return nil
		}
		subjD = half(c.Subj)
		fl, ft, fr, fb := float64(l)/den, float64(tp)/den, float64(r)/den, float64(b)/den
		rectD := c2.NewRectD(fl, ft, fr, fb)
		q := c2.ScalePathsDToPaths64(c2.PathsD{{{X: fl, Y: ft}, {X: fr, Y: fb}}}, scale)[0]
		rect64 := c2.NewRect64(q[0].X, q[0].Y, q[1].X, q[1].Y)
		subj64 := c2.ScalePathsDToPaths64(subjD, scale)
		if c.Op == "rectTies" {
			got = c2.RectClipPathsD(rectD, subjD, pa...)
			want = c2.RectClipPaths64(rect64, subj64)
		} else {
			got = c2.RectClipLinesPathsD(rectD, subjD, pa...)
			want = c2.RectClipLinesPaths64(rect64, subj64)
		}
		extra = fmt.Sprintf(" (tie coordinates n/%v, bounds (%v,%v,%v,%v) quantised like a path to %v)", den, fl, ft, fr, fb, q)
	case "trim":
		got = c2.PathsD{c2.TrimCollinearD(subjD[0], p, !c.Closed)}
		want = Paths{c2.TrimCollinear64(c.Subj[0], !c.Closed)}
	}
	if d := sameScaled(got, want, scale); d != "" {
		return violf("%s with precision %d%s differs from its 64-bit counterpart on the quantised input: %s; subj=%v clip=%v rect=%+v got=%v want(64-bit)=%v", c.Op, p, extra, d, subjD, clipD, c.Rect, got, want)
	}
	cx.St.Eval(c, (p != 2 || c.FracSeed != 0) && countVertsD(got) > 0, "op:"+c.Op, precLabel(c.Prec), boolLabel("fractions", c.FracSeed != 0), boolLabel("nonempty-result", countVertsD(got) > 0))
	return nil
}

func countVertsD(ps c2.PathsD) int {
	n := 0
	for _, p := range ps {
		n += len(p)
	}
	return n
}

func precLabel(p int) string {
	if p == 99 {
		return "prec:default"
	}
	return fmt.Sprintf("prec:%d", p)
}

// judgeBadPrecision: every D entry point that takes a precision must panic with exactly
// ErrPrecisionRange for precisions outside [-8, 8].
func judgeBadPrecision(c *C07Case, cx *Ctx) *Violation {
	p := c.Prec
	tri := c2.PathsD{{{X: 0, Y: 0}, {X: 10, Y: 0}, {X: 0, Y: 10}}}
	rect := c2.NewRectD(0, 0, 5, 5)
	calls := []struct {
		name string
		f    func()
	}{
		{"BooleanOpPathsD", func() { c2.BooleanOpPathsD(c2.Union, tri, nil, c2.NonZero, p) }},
		{"UnionPathsD", func() { c2.UnionPathsD(tri, c2.NonZero, p) }},
		{"UnionWithClipPathsD", func() { c2.UnionWithClipPathsD(tri, tri, c2.NonZero, p) }},
		{"IntersectWithClipPathsD", func() { c2.IntersectWithClipPathsD(tri, tri, c2.NonZero, p) }},
		{"DifferenceWithClipPathsD", func() { c2.DifferenceWithClipPathsD(tri, tri, c2.NonZero, p) }},
		{"XorWithClipPathsD", func() { c2.XorWithClipPathsD(tri, tri, c2.NonZero, p) }},
		{"BooleanOpPolyTreeD", func() { c2.BooleanOpPolyTreeD(c2.Union, tri, nil, c2.NonZero, p) }},
		{"NewClipperD", func() { c2.NewClipperD(p) }},
		{"InflatePathsD", func() { c2.InflatePathsD(tri, 1, c2.Miter, c2.Polygon, c2.WithPrecision(p)) }},
		{"MinkowskiSumD", func() { c2.MinkowskiSumD(tri[0], tri[0], true, p) }},
		{"MinkowskiDiffD", func() { c2.MinkowskiDiffD(tri[0], tri[0], true, p) }},
		{"RectClipPathsD", func() { c2.RectClipPathsD(rect, tri, p) }},
		{"RectClipLinesPathsD", func() { c2.RectClipLinesPathsD(rect, tri, p) }},
		{"TrimCollinearD", func() { c2.TrimCollinearD(tri[0], p, false) }},
	}
	for _, cl := range calls {
		panicked, isPrec, val := callExpectingPrecisionPanic(cl.f)
		if !panicked {
			return violf("%s accepted precision %d (no panic); precisions outside [-8, 8] must be rejected with ErrPrecisionRange", cl.name, p)
		}
		if !isPrec {
			return violf("%s with precision %d panicked with %v instead of ErrPrecisionRange", cl.name, p, val)
		}
	}
	cx.St.Eval(c, true, "op:badPrecision", fmt.Sprintf("prec:%d", p))
	return nil
}

func init() {
	defProp("C07",
		"rapid-generated integer 'intents' n (C01's g1 family, extents 50 .. 2^28), precision p in {default, 2, 0, 1, -1, 3, 5, 7, 8, -4, -7, -8}, float inputs x = (n+f)/10^p with deterministic |f| <= 0.45 kept only when x*10^p lies within n+-0.49 (ties excluded by construction; in the two tie-mode rectangle operations every coordinate is n/2^(p+1), an exact grid point or an exact tie, all four bounds are ties, and the reference quantises bounds and vertices alike with the library's path quantiser); entry points BooleanOpPathsD, the five D wrappers, ClipperD.ExecuteOC (closed and open subjects), BooleanOpPolyTreeD, InflatePathsD (delta, arc tolerance, all join/end types), MinkowskiSumD/DiffD, RectClipPathsD/PathD, RectClipLinesPathsD/PathD, TrimCollinearD; oracle (differential): same path count/lengths/order as the 64-bit counterpart on the intents, every coordinate within 4 ulp of m/10^p; tree: identical node polygons and parents and Scale() = 10^p; precisions 9, -9, 17, +-100 must panic with ErrPrecisionRange in every D entry point that takes one; non-trivial = precision other than 2 or fractional inputs, and a non-empty result",
		[]string{"the 64-bit counterpart is trusted here (it is judged by C01..C11); this check only decides the scale-in / scale-out wrappers",
			"delta*10^p and arcTol*10^p are formed with the same float expression the library documents"},
		drawC07, judgeC07)
}

func TestC07(t *testing.T) { runProp(t, "C07") }
