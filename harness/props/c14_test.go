package props

import (
	"math"
	"math/big"
	"testing"

	c2 "github.com/bolom009/go-clipper2"
	"pgregory.net/rapid"

	"verifharness/kit"
)

// C14Case: one predicate / measure evaluation.
type C14Case struct {
	Kind string  `json:"kind"` // area | pip | bounds | collinear | products
	Path Path    `json:"path,omitempty"`
	More Paths   `json:"more,omitempty"` // further paths for AreaPaths64
	Q    P       `json:"q"`
	Ops  []int64 `json:"ops,omitempty"` // a,b,c,d for products
}

// drawCoord draws a coordinate from the hostile pool, near the pool, or uniformly.
func drawCoord(t *rapid.T, label string) int64 {
	switch rapid.IntRange(0, 3).Draw(t, label+"Src") {
	case 0:
		return rapid.SampledFrom(poolVals).Draw(t, label)
	case 1:
		return clampC(rapid.SampledFrom(poolVals).Draw(t, label) + rapid.Int64Range(-2, 2).Draw(t, label+"Off"))
	case 2:
		return rapid.Int64Range(-20, 20).Draw(t, label)
	default:
		return rapid.Int64Range(-maxC, maxC).Draw(t, label)
	}
}

func drawPoolPath(t *rapid.T, lo, hi int) Path {
	n := rapid.IntRange(lo, hi).Draw(t, "n")
	p := make(Path, 0, n)
	for i := 0; i < n; i++ {
		switch k := rapid.IntRange(0, 9).Draw(t, "ptKind"); {
		case k == 0 && len(p) > 0: // repeat previous
			p = append(p, p[len(p)-1])
		case k == 1 && len(p) > 0: // unit step from previous
			q := p[len(p)-1]
			p = append(p, P{X: clampC(q.X + rapid.Int64Range(-2, 2).Draw(t, "sx")), Y: clampC(q.Y + rapid.Int64Range(-2, 2).Draw(t, "sy"))})
		case k == 2 && len(p) > 0: // same Y (horizontal run)
			p = append(p, P{X: drawCoord(t, "x"), Y: p[len(p)-1].Y})
		default:
			p = append(p, P{X: drawCoord(t, "x"), Y: drawCoord(t, "y")})
		}
	}
	return p
}

func drawC14(t *rapid.T) *C14Case {
	c := &C14Case{Kind: rapid.SampledFrom([]string{"area", "pip", "pip", "bounds", "collinear", "collinear", "products"}).Draw(t, "kind")}
	switch c.Kind {
	case "area":
		c.Path = drawPoolPath(t, 0, 8)
		if rapid.IntRange(0, 3).Draw(t, "fullDomain") == 0 {
			// the largest areas the domain admits: a box hugging the limits, corners optionally cut
			e := func() int64 {
				return rapid.SampledFrom([]int64{0, 1, 1000, 1 << 20, 1 << 26, 1 << 27}).Draw(t, "inset") * rapid.Int64Range(0, 3).Draw(t, "insetMul")
			}
			x0, x1, y0, y1 := -maxC+e(), maxC-e(), -maxC+e(), maxC-e()
			cut := rapid.SampledFrom([]int64{0, 0, 1, 1 << 10, 1 << 25}).Draw(t, "cut")
			c.Path = Path{{X: x0 + cut, Y: y0}, {X: x1 - cut, Y: y0}, {X: x1, Y: y0 + cut}, {X: x1, Y: y1 - cut}, {X: x1 - cut, Y: y1}, {X: x0 + cut, Y: y1}, {X: x0, Y: y1 - cut}, {X: x0, Y: y0 + cut}}
			if rapid.Bool().Draw(t, "fullRev") {
				c.Path = c2.ReversePath(c.Path)
			}
		}
		for i, n := 0, rapid.IntRange(0, 2).Draw(t, "nMore"); i < n; i++ {
			c.More = append(c.More, drawPoolPath(t, 0, 6))
		}
	case "pip":
		c.Path = drawPoolPath(t, 3, 10)
		switch rapid.IntRange(0, 5).Draw(t, "qKind") {
		case 0: // a vertex
			c.Q = c.Path[rapid.IntRange(0, len(c.Path)-1).Draw(t, "qi")]
		case 1: // on an edge (lattice point of the edge when there is one)
			i := rapid.IntRange(0, len(c.Path)-1).Draw(t, "qi")
			a, b := c.Path[i], c.Path[(i+1)%len(c.Path)]
			g := gcd64(abs64(b.X-a.X), abs64(b.Y-a.Y))
			if g > 0 {
				k := rapid.Int64Range(0, g).Draw(t, "qk")
				c.Q = P{X: a.X + (b.X-a.X)/g*k, Y: a.Y + (b.Y-a.Y)/g*k}
			} else {
				c.Q = a
			}
		case 2: // same Y as a vertex (horizontal extension), X anywhere
			v := c.Path[rapid.IntRange(0, len(c.Path)-1).Draw(t, "qi")]
			c.Q = P{X: drawCoord(t, "qx"), Y: v.Y}
		case 3: // next to a vertex
			v := c.Path[rapid.IntRange(0, len(c.Path)-1).Draw(t, "qi")]
			c.Q = P{X: clampC(v.X + rapid.Int64Range(-2, 2).Draw(t, "qdx")), Y: clampC(v.Y + rapid.Int64Range(-2, 2).Draw(t, "qdy"))}
		default:
			c.Q = P{X: drawCoord(t, "qx"), Y: drawCoord(t, "qy")}
		}
	case "bounds":
		c.Path = drawPoolPath(t, 1, 8)
	case "collinear":
		// three points; often exactly collinear, or off by one unit
		a := P{X: drawCoord(t, "ax"), Y: drawCoord(t, "ay")}
		dx, dy := rapid.Int64Range(-1000, 1000).Draw(t, "dx"), rapid.Int64Range(-1000, 1000).Draw(t, "dy")
		if rapid.Bool().Draw(t, "bigStep") {
			dx, dy = drawCoord(t, "bdx")/4, drawCoord(t, "bdy")/4
		}
		k1, k2 := rapid.Int64Range(-3, 3).Draw(t, "k1"), rapid.Int64Range(-3, 3).Draw(t, "k2")
		b := P{X: clampC(a.X + k1*dx), Y: clampC(a.Y + k1*dy)}
		cc := P{X: clampC(a.X + k2*dx + rapid.Int64Range(-1, 1).Draw(t, "ex")), Y: clampC(a.Y + k2*dy + rapid.Int64Range(-1, 1).Draw(t, "ey"))}
		c.Path = Path{a, b, cc}
	case "products":
		c.Ops = make([]int64, 4)
		for i := range c.Ops {
			c.Ops[i] = drawCoord(t, "op") // |v| <= 2^29; differences of coordinates reach 2^30
			if rapid.Bool().Draw(t, "double") {
				c.Ops[i] *= 2
			}
		}
		if rapid.IntRange(0, 2).Draw(t, "forceEq") == 0 {
			c.Ops[2], c.Ops[3] = c.Ops[1], c.Ops[0]
			if rapid.Bool().Draw(t, "negOne") {
				c.Ops[2] = -c.Ops[2]
			}
		}
	}
	return c
}

func gcd64(a, b int64) int64 {
	for b != 0 {
		a, b = b, a%b
	}
	return a
}

// halfToFloat returns area2/2 as the nearest float64.
func halfToFloat(a2 *big.Int) float64 {
	f := new(big.Float).SetPrec(200).SetInt(a2)
	f.Quo(f, big.NewFloat(2))
	v, _ := f.Float64()
	return v
}

func withinUlps(got, want float64, n float64) bool {
	if got == want {
		return true
	}
	return math.Abs(got-want) <= n*math.Abs(want)*0x1p-52
}

func judgeC14(c *C14Case, cx *Ctx) *Violation {
	nontrivial := false
	switch c.Kind {
	case "area":
		a2 := kit.Area2Lib(c.Path)
		want := halfToFloat(a2)
		if got := c2.Area64(c.Path); !withinUlps(got, want, 1) {
			return violf("Area64(%v) = %v, exact shoelace/2 = %v", c.Path, got, want)
		}
		if got, w := c2.IsPositive64(c.Path), a2.Sign() >= 0; got != w {
			return violf("IsPositive64(%v) = %v, exact doubled area %v", c.Path, got, a2)
		}
		all := append(Paths{c.Path}, c.More...)
		sum := 0.0
		for _, p := range all {
			sum += halfToFloat(kit.Area2Lib(p))
		}
		got := c2.AreaPaths64(all)
		if math.Abs(got-sum) > 4*0x1p-52*(math.Abs(sum)+sumAbs(all)) {
			return violf("AreaPaths64(%v) = %v, sum of exact areas = %v", all, got, sum)
		}
		nontrivial = len(c.Path) >= 3 && (a2.BitLen() > 53 || hasUnitDiff(c.Path))
	case "pip":
		flat := true
		for _, v := range c.Path {
			if v.Y != c.Path[0].Y {
				flat = false
			}
		}
		if flat {
			cx.St.Eval(c, false, "kind:pip", "pip:flat-skipped")
			return nil // the statement excludes polygons contained in one horizontal line
		}
		w, on := kit.WindPath(c.Path, c.Q)
		want := c2.IsOutside
		switch {
		case on:
			want = c2.IsOn
		case w&1 != 0:
			want = c2.IsInside
		}
		if got := c2.PointInPolygon(c.Q, c.Path); got != want {
			return violf("PointInPolygon(%v, %v) = %s, exact answer %s (winding %d, on boundary %v)", c.Q, c.Path, pipName(got), pipName(want), w, on)
		}
		nontrivial = on || hasUnitDiff(append(Path{c.Q}, c.Path...))
		cx.St.Label("pip:" + pipName(want))
	case "bounds":
		minX, minY, maxX, maxY, _ := kit.Bounds(Paths{c.Path})
		l, tp, r, b := c2.VerifRect64Fields(c2.GetBounds64(c.Path))
		if l != minX || tp != minY || r != maxX || b != maxY {
			return violf("GetBounds64(%v) = {left %d top %d right %d bottom %d}, exact extremes {%d %d %d %d}", c.Path, l, tp, r, b, minX, minY, maxX, maxY)
		}
		nontrivial = len(c.Path) >= 2
	case "collinear":
		a, b, d := c.Path[0], c.Path[1], c.Path[2]
		want := kit.CrossBig(a, b, d).Sign() == 0
		if got := c2.VerifIsCollinear(a, b, d); got != want {
			if unitOperand(b.X-a.X, d.Y-b.Y, b.Y-a.Y, d.X-b.X) && kfActive("C14", "class:unit-operand") {
				cx.St.Count("mismatch_attributed_to_listed_class_unit_operand", 1)
				cx.St.Eval(c, true, "kind:collinear", "attributed:unit-operand")
				return nil
			}
			return violf("isCollinear(%v,%v,%v) = %v, exact cross product %v", a, b, d, got, kit.CrossBig(a, b, d))
		}
		// black box: TrimCollinear64 on a 3-point open path keeps the middle point iff not collinear
		if a != b && b != d {
			res := c2.TrimCollinear64(Path{a, b, d}, true)
			if want && len(res) != 2 || !want && len(res) != 3 {
				if unitOperand(b.X-a.X, d.Y-b.Y, b.Y-a.Y, d.X-b.X) && kfActive("C14", "class:unit-operand") {
					cx.St.Count("mismatch_attributed_to_listed_class_unit_operand", 1)
					cx.St.Eval(c, true, "kind:collinear", "attributed:unit-operand")
					return nil
				}
				return violf("TrimCollinear64(open %v) = %v but the exact cross product is %v", c.Path, res, kit.CrossBig(a, b, d))
			}
		}
		// CrossProduct sign agrees with the exact sign
		if got, w := sgnF(c2.CrossProduct(a, b, d)), kit.CrossBig(a, b, d).Sign(); got != w {
			return violf("CrossProduct(%v,%v,%v) has sign %d, exact sign %d", a, b, d, got, w)
		}
		nontrivial = want || hasUnitDiff(c.Path)
		cx.St.Label(boolLabel("collinear", want))
	case "products":
		a, b, cc, d := c.Ops[0], c.Ops[1], c.Ops[2], c.Ops[3]
		want := kit.CmpProducts(a, b, cc, d) == 0
		if got := c2.VerifProductsAreEqual(a, b, cc, d); got != want {
			if unitOperand(a, b, cc, d) && kfActive("C14", "class:unit-operand") {
				cx.St.Count("mismatch_attributed_to_listed_class_unit_operand", 1)
				cx.St.Eval(c, true, "kind:products", "attributed:unit-operand")
				return nil
			}
			return violf("productsAreEqual(%d,%d,%d,%d) = %v, exact: %v", a, b, cc, d, got, want)
		}
		nontrivial = want || abs64(a) == 1 || abs64(b) == 1 || abs64(cc) == 1 || abs64(d) == 1
		cx.St.Label(boolLabel("productsEqual", want))
	}
	cx.St.Eval(c, nontrivial, "kind:"+c.Kind)
	return nil
}

func sumAbs(ps Paths) float64 {
	s := 0.0
	for _, p := range ps {
		s += math.Abs(halfToFloat(kit.Area2Lib(p)))
	}
	return s
}

func sgnF(v float64) int {
	switch {
	case v > 0:
		return 1
	case v < 0:
		return -1
	}
	return 0
}

func hasUnitDiff(p Path) bool {
	for i := range p {
		for j := i + 1; j < len(p); j++ {
			if d := abs64(p[i].X - p[j].X); d == 1 {
				return true
			}
			if d := abs64(p[i].Y - p[j].Y); d == 1 {
				return true
			}
		}
	}
	return false
}

func pipName(r c2.PointInPolygonResult) string {
	switch r {
	case c2.IsOn:
		return "IsOn"
	case c2.IsInside:
		return "IsInside"
	case c2.IsOutside:
		return "IsOutside"
	}
	return "?"
}

func init() {
	defProp("C14",
		"rapid-generated operands from a hostile pool (0, +-1, +-2, values around 2^26, 2^27, 2^28, 2^29, 46340/46341, unit steps, repeated points, horizontal runs) and uniform values in [-2^29, 2^29]: Area64/AreaPaths64/IsPositive64 vs exact big-integer shoelace (1 ulp); PointInPolygon vs exact winding parity and exact on-boundary test (query points on vertices, lattice points of edges, horizontal extensions of vertices, unit neighbours); GetBounds64 vs exact extremes; isCollinear / productsAreEqual / CrossProduct sign (verif aliases) and TrimCollinear64 on 3-point open paths vs the exact integer cross product; non-trivial = an operand difference of exactly 1 or a product above 2^53 is present, or the query is on the boundary / the triple is exactly collinear / the products are equal",
		[]string{"paths have at most 8 vertices in the area sub-check so that the exact doubled area of any generated path fits in 63 bits (the statement's domain |coordinate| <= 2^29 does not bound the winding multiplicity)",
			"polygons contained in one horizontal line are skipped for PointInPolygon, as the statement says"},
		drawC14, judgeC14)
}

func TestC14(t *testing.T) { runProp(t, "C14") }

// unitOperand is the input-class predicate of the listed finding F5: one of the four
// factors compared by productsAreEqual is exactly +1 (triSign(1) == 0 in the library).
func unitOperand(a, b, c, d int64) bool { return a == 1 || b == 1 || c == 1 || d == 1 }
