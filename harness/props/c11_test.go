package props

import (
	"math"
	"testing"

	c2 "github.com/bolom009/go-clipper2"
	"pgregory.net/rapid"

	"verifharness/kit"
)

// C11 uses C06Case with open polylines (>= 2 points each).

func drawC11(t *rapid.T) *C06Case {
	R := rapid.SampledFrom([]int64{20, 1000, 1000000, 1 << 27, 1 << 33, 1 << 40}).Draw(t, "R") // no magnitude limit in the statement; int64 products wrap from 2^31.5 on
	c := &C06Case{Rect: drawRect(t, R)}
	np := rapid.IntRange(1, 3).Draw(t, "nPaths")
	for i := 0; i < np; i++ {
		n := rapid.IntRange(2, 8).Draw(t, "n")
		if rapid.IntRange(0, 2).Draw(t, "two") == 0 {
			n = 2
		}
		p := make(Path, n)
		for j := range p {
			p[j] = drawRectPoint(t, c.Rect, R)
		}
		c.Paths = append(c.Paths, p)
	}
	c.Single = len(c.Paths) == 1 && rapid.Bool().Draw(t, "single")
	return c
}

// polyParam returns the smallest arc-length parameter (segment index + fraction) of a
// point of the polyline within tol of q, searching from parameter `from`; -1 if none.
func polyParam(p Path, q P, from float64, tol float64) float64 {
	start := int(from)
	for i := start; i+1 < len(p); i++ {
		a, b := p[i], p[i+1]
		tmin := 0.0
		if i == start {
			tmin = from - float64(i)
		}
		dx, dy := float64(b.X-a.X), float64(b.Y-a.Y)
		l2 := dx*dx + dy*dy
		t := tmin
		if l2 > 0 {
			t = (float64(q.X-a.X)*dx + float64(q.Y-a.Y)*dy) / l2
			t = math.Max(tmin, math.Min(1, t))
		}
		// relative to a: absolute float coordinates lose 2^-13 at 2^40 (a false alarm of the first
		// run with magnitudes 2^33 / 2^40: distance 0.99996 computed as 1.00002)
		rx, ry := float64(q.X-a.X)-t*dx, float64(q.Y-a.Y)-t*dy
		if math.Hypot(rx, ry) <= tol {
			return float64(i) + t
		}
	}
	return -1
}

func judgeC11(c *C06Case, cx *Ctx) *Violation {
	in := kit.ClonePaths(c.Paths)
	var res Paths
	if c.Single {
		res = c2.RectClipLinesPath64(c.Rect.rect(), c.Paths[0])
	} else {
		res = c2.RectClipLinesPaths64(c.Rect.rect(), c.Paths)
	}
	r := c.Rect
	// every result path must be a piece of exactly one input polyline, in input order
	usedBy := make([]int, len(res)) // which input each result path belongs to
	for k, rp := range res {
		if len(rp) < 2 {
			return violf("result path %d has %d points (not a polyline): %v; result=%v", k, len(rp), rp, res)
		}
		for _, v := range rp {
			if v.X < r.L-1 || v.X > r.R+1 || v.Y < r.T-1 || v.Y > r.B+1 {
				return violf("result vertex %v is more than 1 unit outside the rectangle %+v; result=%v", v, r, res)
			}
		}
		owner := -1
		for i, ip := range in {
			if len(ip) < 2 {
				continue
			}
			par, ok := 0.0, true
			for _, v := range rp {
				par = polyParam(ip, v, par, 1.000001) // 1 unit + float guard
				if par < 0 {
					ok = false
					break
				}
			}
			// segment midpoints must follow the input as well (no closing / jumping segment)
			if ok {
				for j := 0; j+1 < len(rp); j++ {
					m := P{X: (rp[j].X + rp[j+1].X) / 2, Y: (rp[j].Y + rp[j+1].Y) / 2}
					if kit.MinDistPath(m, ip, false) > 1.5 {
						ok = false
						break
					}
				}
			}
			if ok {
				owner = i
				break
			}
		}
		if owner < 0 {
			return violf("result path %d = %v is not a sub-polyline (within 1 unit, in input order) of any input line; inputs=%v rect=%+v result=%v", k, rp, in, r, res)
		}
		usedBy[k] = owner
	}
	// coverage: a point of an input line more than 5 units from the rectangle boundary is
	// covered (within 2 units of a result segment) exactly when it is inside the rectangle
	rectPath := Paths{r.path()}
	judged, nCov, nUncov := 0, 0, 0
	through := false
	for _, ip := range in {
		for i := 0; i+1 < len(ip); i++ {
			a, b := ip[i], ip[i+1]
			if a == b {
				continue
			}
			if !r.strictlyInside(a) && !r.strictlyInside(b) && segCrossesRect(a, b, r) {
				through = true
			}
			for _, t := range []float64{0.03, 0.17, 0.31, 0.5, 0.62, 0.83, 0.97} {
				q := P{X: a.X + int64(math.Round(t*float64(b.X-a.X))), Y: a.Y + int64(math.Round(t*float64(b.Y-a.Y)))}
				if kit.MinDist(q, rectPath, true) <= 5 {
					continue
				}
				judged++
				want := r.strictlyInside(q)
				got := kit.MinDist(q, res, false) <= 2.0
				if want {
					nCov++
				} else {
					nUncov++
				}
				if got != want {
					return violf("point %v of input segment %v-%v (inside rectangle %+v: %v) covered by the result: %v; result=%v", q, a, b, r, want, got, res)
				}
			}
		}
	}
	// a two-point segment that properly crosses the rectangle yields exactly one two-point piece
	if len(in) == 1 && len(in[0]) == 2 && in[0][0] != in[0][1] {
		a, b := in[0][0], in[0][1]
		if segCrossesRectInterior(a, b, r) {
			if len(res) != 1 || len(res[0]) != 2 {
				return violf("the two-point line %v-%v passes through the interior of rectangle %+v but the result is %v (expected exactly one two-point piece)", a, b, r, res)
			}
		}
	}
	crossings, vertexOn, along := rectInteraction(openAsClosedEdges(in), r)
	cx.St.Eval(c, crossings > 0 && nCov > 0 && nUncov > 0, boolLabel("single", c.Single), boolLabel("through-without-vertex-inside", through),
		boolLabel("vertex-on-rect", vertexOn), boolLabel("runs-along-edge", along), crossLabel(crossings))
	cx.St.Count("coverage_points_judged", int64(judged))
	return nil
}

// openAsClosedEdges doubles each polyline back on itself so that closed-path helpers see
// exactly its edges (a->b->...->z->...->b).
func openAsClosedEdges(ps Paths) Paths {
	out := make(Paths, 0, len(ps))
	for _, p := range ps {
		q := append(Path{}, p...)
		for i := len(p) - 2; i >= 1; i-- {
			q = append(q, p[i])
		}
		out = append(out, q)
	}
	return out
}

func segCrossesRect(a, b P, r RectJ) bool {
	rp := r.path()
	for k := 0; k < 4; k++ {
		if kit.SegsProperlyCross(a, b, rp[k], rp[(k+1)%4]) {
			return true
		}
	}
	return false
}

// segCrossesRectInterior: the segment contains a point strictly inside the rectangle that is
// more than 3 units from its boundary (so that rounding cannot make the piece degenerate).
func segCrossesRectInterior(a, b P, r RectJ) bool {
	for i := 0; i <= 64; i++ {
		t := float64(i) / 64
		x, y := float64(a.X)+t*float64(b.X-a.X), float64(a.Y)+t*float64(b.Y-a.Y)
		if x > float64(r.L)+3 && x < float64(r.R)-3 && y > float64(r.T)+3 && y < float64(r.B)-3 {
			return true
		}
	}
	return false
}

func init() {
	defProp("C11",
		"rapid-generated non-empty rectangles (extent 20 .. 2^27, 2^33, 2^40) x 1-3 open polylines of 2-8 points (one third two-point segments) with vertices drawn from rectangle corners, edges and their extensions, inside, one unit off a corner, around and far; RectClipLinesPaths64 and RectClipLinesPath64; oracle: every result path has >= 2 points, lies within the rectangle enlarged by 1, is a sub-polyline of one input line (vertices within 1 unit, in input order, segment midpoints within 1.5 units: nothing is closed up or bridged); sample points of input segments farther than 5 units from the rectangle boundary are within 2 units of the result exactly when inside the rectangle; a two-point line through the interior yields exactly one two-point piece; non-trivial = a segment properly crosses the rectangle boundary and covered as well as uncovered sample points were judged",
		[]string{"sample points closer than 5 units to the rectangle boundary are not judged (a sound subset of the statement's 2 units)"},
		drawC11, judgeC11)
}

func TestC11(t *testing.T) { runProp(t, "C11") }
