package props

import (
	"math"
	"sort"
	"testing"

	c2 "github.com/bolom009/go-clipper2"
	"pgregory.net/rapid"

	"verifharness/kit"
)

// C05Case: polygon offsetting of a simple polygon set (outers and holes).
type C05Case struct {
	Groups     []Paths     `json:"groups"` // 1-2 groups, all with the same global orientation
	Delta      float64     `json:"delta"`
	Join       c2.JoinType `json:"join"`
	MiterLimit float64     `json:"miter_limit"`
	ArcTol     float64     `json:"arc_tol"`
	UseObject  bool        `json:"use_object"` // ClipperOffset object instead of InflatePaths64
	Reversed   bool        `json:"reversed"`   // outers negative, holes positive
	// options of the ClipperOffset object (UseObject only); neither may change the region
	PreserveCollinear bool `json:"preserve_collinear,omitempty"`
	ReverseSolution   bool `json:"reverse_solution,omitempty"`
}

// drawStar draws a star-shaped polygon around (cx,cy) with radii in [rmin,rmax], counter-clockwise.
func drawStar(t *rapid.T, cx, cy int64, rmin, rmax float64, label string) Path {
	n := rapid.IntRange(3, 14).Draw(t, label+"N")
	// angles: n sectors of the full turn, one angle per sector => gaps < 2*(2pi/n) <= 4pi/3 for n=3
	angs := make([]float64, n)
	for i := range angs {
		angs[i] = (float64(i) + rapid.Float64Range(0.05, 0.95).Draw(t, label+"A")) * 2 * math.Pi / float64(n)
	}
	sort.Float64s(angs)
	p := make(Path, 0, n)
	for _, a := range angs {
		r := rapid.Float64Range(rmin, rmax).Draw(t, label+"R")
		v := P{X: cx + int64(math.Round(r*math.Cos(a))), Y: cy + int64(math.Round(r*math.Sin(a)))}
		if len(p) == 0 || p[len(p)-1] != v {
			p = append(p, v)
		}
	}
	return p
}

// drawSmooth draws an ellipse-like polygon with 150-420 vertices (every vertex turns by less than
// 2.5 degrees: the offsetter's "almost straight" shortcuts decide all of its joins), counter-clockwise.
func drawSmooth(t *rapid.T, cx, cy int64, rmin, rmax float64, label string) Path {
	n := rapid.IntRange(150, 420).Draw(t, label+"SmoothN")
	a := rapid.Float64Range(rmin, rmax).Draw(t, label+"SmoothA")
	b := rapid.Float64Range(rmin, rmax).Draw(t, label+"SmoothB")
	ph := rapid.Float64Range(0, 1).Draw(t, label+"SmoothPhase")
	p := make(Path, 0, n)
	for i := 0; i < n; i++ {
		ang := (float64(i) + ph) * 2 * math.Pi / float64(n)
		v := P{X: cx + int64(math.Round(a*math.Cos(ang))), Y: cy + int64(math.Round(b*math.Sin(ang)))}
		if len(p) == 0 || p[len(p)-1] != v {
			p = append(p, v)
		}
	}
	for len(p) > 1 && p[len(p)-1] == p[0] {
		p = p[:len(p)-1]
	}
	return p
}

// drawComb draws a rectilinear comb (a base bar with 1-4 teeth of varying height), counter-
// clockwise, roughly of radius 2*scale around (cx,cy); simple by construction. Its hole-free
// core around the centre (the bar) is what a star hole may be placed in.
func drawComb(t *rapid.T, cx, cy int64, scale float64) Path {
	s := int64(scale)
	teeth := rapid.IntRange(1, 4).Draw(t, "teeth")
	w := 4 * s / int64(2*teeth+1) // width of a tooth / gap
	if w < 2 {
		w = 2
	}
	x0, yb := cx-2*s, cy-s // bar from yb to yb+s (bar height s), teeth above it
	p := Path{{X: x0, Y: yb}, {X: x0 + int64(2*teeth+1)*w, Y: yb}}
	x := x0 + int64(2*teeth+1)*w
	top := yb + s
	p = append(p, P{X: x, Y: top})
	for i := teeth - 1; i >= 0; i-- {
		h := rapid.Int64Range(s/4+1, s).Draw(t, "toothHeight")
		// gap to the right of the tooth, then the tooth
		p = append(p, P{X: x - w, Y: top}, P{X: x - w, Y: top + h}, P{X: x - 2*w, Y: top + h}, P{X: x - 2*w, Y: top})
		x -= 2 * w
		_ = i
	}
	p = append(p, P{X: x0, Y: top})
	return p
}

func pathIsSimple(p Path) bool {
	n := len(p)
	if n < 3 {
		return false
	}
	for i := 0; i < n; i++ {
		if p[i] == p[(i+1)%n] {
			return false
		}
	}
	for i := 0; i < n; i++ {
		for j := i + 1; j < n; j++ {
			if j == i+1 || (i == 0 && j == n-1) {
				// adjacent edges: only the shared vertex may be common
				a, b, c := p[i], p[(i+1)%n], p[(i+2)%n]
				if i == 0 && j == n-1 {
					a, b, c = p[n-1], p[0], p[1]
				}
				if kit.CrossSign(a, b, c) == 0 && (kit.OnSegment(a, b, c) || kit.OnSegment(b, c, a)) {
					return false
				}
				continue
			}
			if kit.SegsTouch(p[i], p[(i+1)%n], p[j], p[(j+1)%n]) {
				return false
			}
		}
	}
	return kit.Area2(p).Sign() != 0
}

func pathsDisjointBoundaries(a, b Path) bool {
	for i := range a {
		for j := range b {
			if kit.SegsTouch(a[i], a[(i+1)%len(a)], b[j], b[(j+1)%len(b)]) {
				return false
			}
		}
	}
	return true
}

// drawSimpleSet builds 1-3 components (star outer + optional star holes), verified exactly:
// every path simple, holes strictly inside their outer and mutually disjoint, components far apart.
func drawSimpleSet(t *rapid.T, scale float64, reversed bool) Paths {
	var out Paths
	comps := rapid.IntRange(1, 3).Draw(t, "components")
	for k := 0; k < comps; k++ {
		cx := int64(k) * int64(6*scale)
		cy := rapid.Int64Range(-int64(scale), int64(scale)).Draw(t, "cy")
		outer := drawStar(t, cx, cy, scale, 2*scale, "outer")
		switch shape := rapid.IntRange(0, 11).Draw(t, "comb"); {
		case shape <= 3:
			outer = drawComb(t, cx, cy, scale)
		case shape == 4 && scale >= 5000:
			outer = drawSmooth(t, cx, cy, scale, 2*scale, "outer")
		}
		if !pathIsSimple(outer) || kit.Area2(outer).Sign() <= 0 {
			outer = Path{{X: cx - int64(scale), Y: cy - int64(scale)}, {X: cx + int64(scale), Y: cy - int64(scale)}, {X: cx + int64(scale), Y: cy + int64(scale)}, {X: cx - int64(scale), Y: cy + int64(scale)}}
		}
		comp := Paths{outer}
		if rapid.Bool().Draw(t, "hasHole") {
			// a star with few vertices contains the disc of radius rmin*cos(maxgap/2) >= rmin*0.5 (gap <= 2pi/3
			// holds for n >= 6; verified exactly below in any case)
			hole := drawStar(t, cx, cy, 0.12*scale, 0.42*scale, "hole")
			if scale >= 5000 && rapid.IntRange(0, 5).Draw(t, "smoothHole") == 0 {
				hole = drawSmooth(t, cx, cy, 0.12*scale, 0.42*scale, "hole")
			}
			ok := pathIsSimple(hole) && kit.Area2(hole).Sign() > 0 && pathsDisjointBoundaries(hole, outer)
			if ok {
				for _, v := range hole {
					if w, on := kit.WindPath(outer, v); w == 0 || on {
						ok = false
					}
				}
			}
			if ok {
				comp = append(comp, c2.ReversePath(hole))
			}
		}
		out = append(out, comp...)
	}
	if reversed {
		for i := range out {
			out[i] = c2.ReversePath(out[i])
		}
	}
	// spellings every polygon entry point accepts: an explicit closing vertex, a repeated vertex
	for i := range out {
		switch rapid.IntRange(0, 7).Draw(t, "spelling") {
		case 0, 1:
			out[i] = append(append(Path{}, out[i]...), out[i][0])
		case 2:
			j := rapid.IntRange(0, len(out[i])-1).Draw(t, "dupAt")
			q := append(Path{}, out[i][:j+1]...)
			out[i] = append(append(q, out[i][j]), out[i][j+1:]...)
		}
	}
	// the order of the paths within a set is arbitrary (holes may come before their outers)
	if rapid.Bool().Draw(t, "shuffle") {
		for i := len(out) - 1; i > 0; i-- {
			j := rapid.IntRange(0, i).Draw(t, "shuffleIdx")
			out[i], out[j] = out[j], out[i]
		}
	}
	return out
}

func drawC05(t *rapid.T) *C05Case {
	c := &C05Case{}
	// the statement sets no magnitude limit: beyond 2^31.5 the squared length of an edge leaves int64
	scale := rapid.SampledFrom([]float64{30, 300, 5000, 1e6, 2e7, 1 << 32, 1 << 37}).Draw(t, "scale")
	c.Reversed = rapid.Bool().Draw(t, "reversed")
	c.Groups = append(c.Groups, drawSimpleSet(t, scale, c.Reversed))
	if rapid.IntRange(0, 3).Draw(t, "twoGroups") == 0 {
		g2 := drawSimpleSet(t, scale, c.Reversed)
		// move the second group far away so that the groups' regions are disjoint
		for i := range g2 {
			for j := range g2[i] {
				g2[i][j].Y += int64(8 * scale)
			}
		}
		c.Groups = append(c.Groups, g2)
	}
	c.UseObject = len(c.Groups) > 1 || rapid.Bool().Draw(t, "useObject")
	if c.UseObject {
		c.PreserveCollinear = rapid.IntRange(0, 3).Draw(t, "preserveCollinear") == 0
		c.ReverseSolution = rapid.IntRange(0, 3).Draw(t, "reverseSolution") == 0
	}
	c.Join = rapid.SampledFrom([]c2.JoinType{c2.Miter, c2.Square, c2.Bevel, c2.Round}).Draw(t, "join")
	c.MiterLimit = rapid.SampledFrom([]float64{2, 1, 1.5, 3, 10}).Draw(t, "miterLimit")
	switch rapid.IntRange(0, 7).Draw(t, "deltaKind") {
	case 0:
		c.Delta = rapid.SampledFrom([]float64{0.49, -0.49, 0.5, -0.5, 0.1, -0.3, 0}).Draw(t, "deltaExact")
	default:
		// (capped at 6e7: a round join of radius 2^37 has ~10^6 arc steps - a resource-shaped limit)
		mag := math.Exp(rapid.Float64Range(math.Log(0.6), math.Log(math.Min(3*scale, 6e7))).Draw(t, "logDelta"))
		if rapid.Bool().Draw(t, "negDelta") {
			mag = -mag
		}
		c.Delta = mag
	}
	if rapid.IntRange(0, 2).Draw(t, "arcKind") == 0 && math.Abs(c.Delta) >= 2 {
		c.ArcTol = rapid.Float64Range(0.25, math.Abs(c.Delta)/4+0.25).Draw(t, "arcTol")
	}
	return c
}

func runInflate(c *C05Case, endType c2.EndType) Paths {
	if !c.UseObject && len(c.Groups) == 1 {
		return c2.InflatePaths64(c.Groups[0], c.Delta, c.Join, endType, c2.WithMitterLimit(c.MiterLimit), c2.WithArcTolerance(c.ArcTol))
	}
	co := c2.NewClipperOffset(c.MiterLimit, c.ArcTol, c.PreserveCollinear, c.ReverseSolution)
	for _, g := range c.Groups {
		co.AddPaths(g, c.Join, endType)
	}
	sol := Paths{}
	co.Execute64(c.Delta, &sol)
	return sol
}

// offsetFactor returns k: no result point may be farther than k*|delta|+tol from the source.
func offsetFactor(j c2.JoinType, miterLimit float64) float64 {
	switch j {
	case c2.Round, c2.Bevel:
		return 1
	case c2.Square:
		return math.Sqrt2
	default:
		ml := miterLimit
		if ml <= 1 {
			ml = 1 // the library treats limits <= 1 as "always square"
		}
		return math.Max(ml, math.Sqrt2)
	}
}

func effectiveArcTol(arcTol, delta float64, j c2.JoinType) float64 {
	if j != c2.Round {
		return 0
	}
	if arcTol > 1e-12 {
		return arcTol
	}
	return math.Abs(delta) * 0.002 // the library's default: delta/500
}

func judgeC05(c *C05Case, cx *Ctx) *Violation {
	var in Paths
	for _, g := range c.Groups {
		in = append(in, g...)
	}
	inCopy := kit.ClonePaths(in)
	sol := runInflate(c, c2.Polygon)
	_ = inCopy
	d := c.Delta
	ad := math.Abs(d)
	sign := 1
	if c.Reversed {
		sign = -1
	}
	resSign := sign // the result keeps the orientation convention of the input unless ReverseSolution is set
	if c.ReverseSolution {
		resSign = -sign
	}
	label := []string{boolLabel("option:preserve-collinear", c.PreserveCollinear), boolLabel("option:reverse-solution", c.ReverseSolution), "join:" + joinName(c.Join), boolLabel("reversed", c.Reversed), boolLabel("object", c.UseObject), boolLabel("two-groups", len(c.Groups) > 1)}
	smooth := false
	for _, g := range c.Groups {
		for _, p := range g {
			smooth = smooth || len(p) >= 140
		}
	}
	label = append(label, boolLabel("smooth-path(>=140 vertices)", smooth))

	if ad < 0.5 {
		// the input paths apart from repeated points, path by path
		if len(sol) != len(in) {
			return violf("|delta|=%v < 0.5 must return the input paths: got %d paths for %d", ad, len(sol), len(in))
		}
		for i := range in {
			if !kit.PathsEqual(Paths{sol[i]}, Paths{withoutRepeats(in[i])}) {
				return violf("|delta|=%v < 0.5 must return the input paths apart from repeated points: path %d is %v, input %v", ad, i, sol[i], in[i])
			}
		}
		cx.St.Eval(c, false, append(label, "delta:sub-half")...)
		return nil
	}

	if v := canonicalPaths(sol); v != nil {
		return v
	}
	k := offsetFactor(c.Join, c.MiterLimit)
	tol := 2 + effectiveArcTol(c.ArcTol, d, c.Join) + 0.01

	// probe set: rings along edge normals and around vertices, plus generic probes of input and output
	var extra []P
	addRing := func(x, y, nx, ny float64, rs []float64) {
		for _, r := range rs {
			extra = append(extra, P{X: int64(math.Round(x + nx*r)), Y: int64(math.Round(y + ny*r))}, P{X: int64(math.Round(x - nx*r)), Y: int64(math.Round(y - ny*r))})
		}
	}
	rings := []float64{(ad - tol) / 2, ad - tol - 0.7, ad + tol + 0.7, k*ad + tol + 1.5, 1.4 * (k*ad + tol)}
	var rs []float64
	for _, r := range rings {
		if r > 0.5 {
			rs = append(rs, r)
		}
	}
	for _, p := range in {
		n := len(p)
		for i := 0; i < n; i++ {
			a, b := p[i], p[(i+1)%n]
			dx, dy := float64(b.X-a.X), float64(b.Y-a.Y)
			l := math.Hypot(dx, dy)
			if l == 0 {
				continue
			}
			nx, ny := dy/l, -dx/l
			for _, t := range []float64{0.08, 0.5, 0.92} {
				addRing(float64(a.X)+t*dx, float64(a.Y)+t*dy, nx, ny, rs)
			}
			for _, dir := range [][2]float64{{1, 0}, {0.7071, 0.7071}, {0, 1}, {-0.7071, 0.7071}} {
				addRing(float64(a.X), float64(a.Y), dir[0], dir[1], rs)
			}
		}
	}
	probes := kit.Probes([]Paths{in, sol}, kit.ProbeOpt{Closed: true, Extra: extra, Max: 9000})

	cntMustIn, cntMustOut := 0, 0
	for _, q := range probes {
		w, onIn := kit.Wind(in, q)
		if onIn {
			continue
		}
		inR := w != 0
		dist := kit.MinDist(q, in, true)
		ws, onSol := kit.Wind(sol, q)
		// canonical winding (off the solution edges)
		if !onSol && ws != 0 && ws != resSign && kit.FarFrom(q, sol, true, band) {
			return violf("offset result has winding number %d at %v (allowed 0 or %d); result=%v", ws, q, resSign, sol)
		}
		// cmin*|delta| is the least distance of the ideal result boundary from the source
		// side it moves away from: 1 for Round/Miter/Square, 0 for Bevel (a bevel chord at a
		// sharp corner passes arbitrarily close to the vertex). Integer rounding of the
		// result may move its boundary by up to tol, so points nearer than that are not judged.
		cmin := 1.0
		if c.Join == c2.Bevel {
			cmin = 0
		}
		verdict := func(tol, k float64) (mustIn, mustOut bool) {
			if d > 0 {
				mustIn = (inR && dist+cmin*ad > tol) || (!inR && c.Join == c2.Round && dist < ad-tol) || (!inR && dist <= ad-tol && alongNormal(q, in, ad-tol, tol, sign, true))
				mustOut = !inR && dist > k*ad+tol
			} else {
				mustOut = (!inR && dist+cmin*ad > tol) || (inR && c.Join == c2.Round && dist < ad-tol) || (inR && dist <= ad-tol && alongNormal(q, in, ad-tol, tol, sign, false))
				mustIn = inR && dist > k*ad+tol
			}
			return
		}
		mustIn, mustOut := verdict(tol, k)
		bad := (mustIn && ws == 0 && !onSol) || (mustOut && ws != 0 && !onSol)
		if mustIn {
			cntMustIn++
		}
		if mustOut {
			cntMustOut++
		}
		if !bad {
			continue
		}
		// listed findings: F40 (rounding of the offset points compounds with the rounding of
		// the final union: deviations of up to 2.75 units) and F39 (Bevel joins mitre
		// vertices straighter than acos(0.999): the result reaches 1.00026*|delta|)
		tol2, k2 := tol, k
		if kfActive("C05", "class:compound-rounding") {
			tol2 += 0.75
		}
		if c.Join == c2.Bevel && kfActive("C05", "class:bevel-near-straight-miter") {
			k2 *= 1.00026
		}
		if tol2 != tol || k2 != k {
			mi, mo := verdict(tol2, k2)
			if !((mi && ws == 0 && !onSol) || (mo && ws != 0 && !onSol)) {
				cx.St.Count("mismatch_attributed_to_listed_class", 1)
				continue
			}
		}
		if mustIn {
			return violf("delta=%v join=%s miter=%v arcTol=%v: point %v must be inside the result (in source region: %v, distance to source boundary %.3f, tol %.3f, k %.4f) but is outside; result=%v",
				d, joinName(c.Join), c.MiterLimit, c.ArcTol, q, inR, dist, tol, k, sol)
		}
		return violf("delta=%v join=%s miter=%v arcTol=%v: point %v must be outside the result (in source region: %v, distance to source boundary %.3f, k=%.4f, tol %.3f) but is inside; result=%v",
			d, joinName(c.Join), c.MiterLimit, c.ArcTol, q, inR, dist, k, tol, sol)
	}
	// over-shrinking: empty result when |delta|-tol exceeds half the smaller bounding-box side of every outer
	if d < 0 {
		over := true
		for _, p := range in {
			if kit.Area2(p).Sign() != sign {
				continue // a hole
			}
			minX, minY, maxX, maxY, _ := kit.Bounds(Paths{p})
			if ad-tol <= float64(min(maxX-minX, maxY-minY))/2 {
				over = false
			}
		}
		if over && len(sol) != 0 {
			return violf("delta=%v shrinks every component away (bounding boxes thinner than 2(|delta|-tol)) but the result is %v", d, sol)
		}
		if over {
			label = append(label, "over-shrunk")
		}
	}
	concave := false
	for _, p := range in {
		n := len(p)
		for i := range p {
			if kit.CrossSign(p[(i+n-1)%n], p[i], p[(i+1)%n])*sign < 0 {
				concave = true
			}
		}
	}
	hasHole := false
	for _, p := range in {
		if kit.Area2(p).Sign() != sign {
			hasHole = true
		}
	}
	dl := "delta:grow"
	if d < 0 {
		dl = "delta:shrink"
	}
	cx.St.Eval(c, (concave || hasHole) && cntMustIn > 0 && cntMustOut > 0, append(label, dl, boolLabel("hole", hasHole), boolLabel("concave", concave))...)
	cx.St.Count("probes_must_be_inside", int64(cntMustIn))
	cx.St.Count("probes_must_be_outside", int64(cntMustOut))
	return nil
}

// alongNormal reports whether q = e + t*n for a point e of some edge (not beyond its ends),
// at least endMargin from both ends, 0 <= t <= lim, n the unit normal pointing out of the region (outward) or into it. The
// region lies to the left of every directed edge when sign = +1 (outers counter-clockwise,
// holes clockwise) and to the right when sign = -1.
func alongNormal(q P, paths Paths, lim, endMargin float64, sign int, outward bool) bool {
	want := sign // cross(a,b,q) has this sign on the inner side
	if outward {
		want = -sign
	}
	for _, p := range paths {
		n := len(p)
		for i := 0; i < n; i++ {
			a, b := p[i], p[(i+1)%n]
			if a == b || kit.CrossSign(a, b, q) != want {
				continue
			}
			dx, dy := float64(b.X-a.X), float64(b.Y-a.Y)
			l2 := dx*dx + dy*dy
			l := math.Sqrt(l2)
			t := (float64(q.X-a.X)*dx + float64(q.Y-a.Y)*dy) / l // distance of the foot from a
			if t < endMargin || t > l-endMargin {
				continue // the foot must be clear of the edge's ends (rounding acts sideways too)
			}
			if math.Abs(float64(q.X-a.X)*dy-float64(q.Y-a.Y)*dx)/math.Sqrt(l2) <= lim {
				return true
			}
		}
	}
	return false
}

func joinName(j c2.JoinType) string {
	switch j {
	case c2.Miter:
		return "Miter"
	case c2.Square:
		return "Square"
	case c2.Bevel:
		return "Bevel"
	case c2.Round:
		return "Round"
	}
	return "?"
}

func init() {
	defProp("C05",
		"rapid-generated simple polygon sets: 1-3 components, each a star-shaped outer (3-14 vertices), a comb or a smooth 150-420 vertex ellipse (radii in [s,2s], s from 30 to 2^37) with an optional star-shaped or smooth hole, verified exactly inside the generator (simple, hole strictly inside, boundaries disjoint), either global orientation, 1-2 groups (ClipperOffset object, PreserveCollinear / ReverseSolution set in a quarter of the cases each) or InflatePaths64; delta log-uniform in [0.6, min(3s, 6e7)] of both signs plus the exact values +-0.49, +-0.5, 0.1, -0.3, 0; 4 join types; miter limits {1,1.5,2,3,10}; arc tolerance default or in [0.25, delta/4]; oracle: exact winding of the source region R and float distance d to its boundary at probes on rings along edge normals / around vertices at (|delta|-tol)/2, |delta|-tol-0.7, |delta|+tol+0.7, k|delta|+tol+1.5, 1.4(k|delta|+tol): growing: R and points within |delta|-tol along an edge normal inside, points farther than k|delta|+tol outside, Round: d<|delta|-tol inside; shrinking: mirror statements; over-shrinking gives []; |delta|<0.5 returns the input; canonical vertex rules and winding in {0,s}; non-trivial = concave vertex or hole, and both must-be-inside and must-be-outside probes were judged",
		[]string{"tol = 2 + effective arc tolerance + 0.01 guard; the effective arc tolerance is the given one or, when none is given, the library's default |delta|/500",
			"float distances; |coordinates| <= 2^27 so the absolute error is far below the guard"},
		drawC05, judgeC05)
}

func TestC05(t *testing.T) { runProp(t, "C05") }

// withoutRepeats removes cyclically consecutive repeated points of a closed path (what the
// statement calls "apart from repeated points"): later copies go, the first one stays.
func withoutRepeats(p Path) Path {
	var q Path
	for _, v := range p {
		if len(q) == 0 || q[len(q)-1] != v {
			q = append(q, v)
		}
	}
	for len(q) > 1 && q[len(q)-1] == q[0] {
		q = q[:len(q)-1]
	}
	return q
}
