package props

import (
	"encoding/json"
	"os"
	"path/filepath"
	"testing"

	"verifharness/kit"
)

// TestShrinkBool greedily minimises a saved C01/C02/C17/C19-style boolean case
// (development aid, not part of any registered check): VERIF_REPLAY=<failure file>,
// result written to $VERIF_OUT/shrunk.json. The case keeps failing its own judge
// with known-finding excuses as configured by VERIF_KF.
func TestShrinkBool(t *testing.T) {
	f := os.Getenv("VERIF_REPLAY")
	if f == "" {
		t.Skip("VERIF_REPLAY not set")
	}
	b, err := os.ReadFile(f)
	if err != nil {
		t.Fatal(err)
	}
	var ff failureFile
	if err := json.Unmarshal(b, &ff); err != nil {
		t.Fatal(err)
	}
	p := registry[ff.Property]
	cx := &Ctx{St: kit.NewStats(ff.Property)}
	var cur map[string]any
	if err := json.Unmarshal(ff.Case, &cur); err != nil {
		t.Fatal(err)
	}
	fails := func(m map[string]any) (bool, string) {
		raw, _ := json.Marshal(m)
		v, err := p.replay(raw, cx)
		if err != nil || v == nil {
			return false, ""
		}
		return true, v.Msg
	}
	ok, msg := fails(cur)
	if !ok {
		t.Fatalf("case does not fail")
	}
	clone := func(m map[string]any) map[string]any {
		raw, _ := json.Marshal(m)
		var c map[string]any
		_ = json.Unmarshal(raw, &c)
		return c
	}
	changed := true
	for changed {
		changed = false
		for _, key := range []string{"subj", "clip"} {
			// remove whole paths
			for i := 0; ; i++ {
				ps, _ := cur[key].([]any)
				if i >= len(ps) {
					break
				}
				c := clone(cur)
				cps := c[key].([]any)
				c[key] = append(cps[:i:i], cps[i+1:]...)
				if ok, m := fails(c); ok {
					cur, msg, changed = c, m, true
					i--
				}
			}
			// remove vertices
			for i := 0; ; i++ {
				ps, _ := cur[key].([]any)
				if i >= len(ps) {
					break
				}
				for j := 0; ; j++ {
					ps, _ = cur[key].([]any)
					path, _ := ps[i].([]any)
					if j >= len(path) {
						break
					}
					c := clone(cur)
					cp := c[key].([]any)[i].([]any)
					c[key].([]any)[i] = append(cp[:j:j], cp[j+1:]...)
					if ok, m := fails(c); ok {
						cur, msg, changed = c, m, true
						j--
					}
				}
			}
		}
		// drop extra probes
		if ex, _ := cur["extra"].([]any); len(ex) > 0 {
			c := clone(cur)
			c["extra"] = nil
			if ok, m := fails(c); ok {
				cur, msg, changed = c, m, true
			}
		}
		// translate so that the first vertex is the origin, then divide by small factors
		for _, d := range []float64{10, 7, 5, 3, 2} {
			c := clone(cur)
			for _, key := range []string{"subj", "clip"} {
				ps, _ := c[key].([]any)
				for _, pa := range ps {
					for _, v := range pa.([]any) {
						pt := v.(map[string]any)
						pt["X"] = float64(int64(pt["X"].(float64) / d))
						pt["Y"] = float64(int64(pt["Y"].(float64) / d))
					}
				}
			}
			if ok, m := fails(c); ok {
				cur, msg, changed = c, m, true
			}
		}
	}
	raw, _ := json.Marshal(cur)
	out, _ := json.MarshalIndent(failureFile{Property: ff.Property, Msg: msg, Case: raw}, "", " ")
	if outDir != "" {
		_ = os.WriteFile(filepath.Join(outDir, "shrunk.json"), out, 0o644)
	}
	t.Logf("shrunk: %s", raw)
}
