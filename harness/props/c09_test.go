package props

import (
	"math"
	"sort"
	"strings"
	"testing"

	c2 "github.com/bolom009/go-clipper2"
	"pgregory.net/rapid"

	"verifharness/kit"
)

// C09Case: open subject polylines clipped against closed clip (and closed subject) paths.
type C09Case struct {
	Fam        Family      `json:"fam"`
	Open       Paths       `json:"open"`
	ClosedSubj Paths       `json:"closed_subj"`
	Clip       Paths       `json:"clip"`
	CT         c2.ClipType `json:"ct"`
	FR         c2.FillRule `json:"fr"`
	EngineD    bool        `json:"engine_d"` // ClipperD with precision 2 on inputs / 100
	ViaAddPath bool        `json:"via_add_path,omitempty"` // open subjects added one by one through AddPath
	Ts         []float64   `json:"ts"`       // extra sample fractions
}

func drawC09(t *rapid.T) *C09Case {
	f := drawFamily(t)
	c := &C09Case{Fam: f}
	c.Clip = drawClosedPaths(t, f, 1, 2, "clip")
	if rapid.IntRange(0, 2).Draw(t, "withClosedSubj") == 0 {
		c.ClosedSubj = drawClosedPaths(t, f, 1, 2, "closedSubj")
	}
	var verts []P
	for _, ps := range []Paths{c.Clip, c.ClosedSubj} {
		for _, p := range ps {
			verts = append(verts, p...)
		}
	}
	no := rapid.IntRange(1, 3).Draw(t, "nOpen")
	for i := 0; i < no; i++ {
		n := rapid.IntRange(2, 8).Draw(t, "n")
		base := drawClosedPath(t, f) // same family => same lattice for rect/oct
		p := make(Path, 0, n)
		for j := 0; j < n; j++ {
			switch k := rapid.IntRange(0, 9).Draw(t, "openPt"); {
			case k == 0 && len(verts) > 0: // start/end/pass exactly on a clip vertex
				p = append(p, verts[rapid.IntRange(0, len(verts)-1).Draw(t, "onV")])
			case k == 1 && len(verts) > 1: // on a clip edge (midpoint of two consecutive vertices of a path)
				ps := c.Clip[rapid.IntRange(0, len(c.Clip)-1).Draw(t, "onP")]
				if len(ps) >= 2 {
					e := rapid.IntRange(0, len(ps)-1).Draw(t, "onE")
					a, b := ps[e], ps[(e+1)%len(ps)]
					p = append(p, P{X: (a.X + b.X) / 2, Y: (a.Y + b.Y) / 2})
				}
			case k == 2 && len(p) > 0: // horizontal segment
				p = append(p, P{X: rapid.Int64Range(-f.R, f.R).Draw(t, "hx"), Y: p[len(p)-1].Y})
			default:
				if len(base) > 0 {
					p = append(p, base[j%len(base)])
				} else {
					p = append(p, P{X: rapid.Int64Range(-f.R, f.R).Draw(t, "x"), Y: rapid.Int64Range(-f.R, f.R).Draw(t, "y")})
				}
			}
		}
		if len(p) >= 2 {
			c.Open = append(c.Open, p)
		}
	}
	if len(c.Open) == 0 {
		c.Open = Paths{{{X: -f.R, Y: 0}, {X: f.R, Y: 1}}}
	}
	c.CT = rapid.SampledFrom([]c2.ClipType{c2.Intersection, c2.Difference, c2.Union}).Draw(t, "ct")
	c.FR = rapid.SampledFrom(allFillRules).Draw(t, "fr")
	c.EngineD = f.R <= 1000000 && rapid.IntRange(0, 4).Draw(t, "engineD") == 0
	c.ViaAddPath = !c.EngineD && rapid.IntRange(0, 3).Draw(t, "viaAddPath") == 0
	for i, n := 0, rapid.IntRange(0, 4).Draw(t, "nTs"); i < n; i++ {
		c.Ts = append(c.Ts, rapid.Float64Range(0, 1).Draw(t, "t"))
	}
	return c
}

func pathsToD(ps Paths, div float64) c2.PathsD {
	r := make(c2.PathsD, len(ps))
	for i, p := range ps {
		r[i] = make(c2.PathD, len(p))
		for j, v := range p {
			r[i][j] = c2.PointD{X: float64(v.X) / div, Y: float64(v.Y) / div}
		}
	}
	return r
}

func pathsFromD(ps c2.PathsD, mul float64) Paths {
	r := make(Paths, len(ps))
	for i, p := range ps {
		r[i] = make(Path, len(p))
		for j, v := range p {
			r[i][j] = P{X: int64(math.Round(v.X * mul)), Y: int64(math.Round(v.Y * mul))}
		}
	}
	return r
}

// runOpen executes with (withOpen) or without the open subjects and returns closed and open solutions.
func runOpen(c *C09Case, withOpen bool) (closed, open Paths, ok bool) {
	if c.EngineD {
		e := c2.NewClipperD(2)
		if withOpen {
			e.AddPaths(pathsToD(c.Open, 100), c2.Subject, true)
		}
		if len(c.ClosedSubj) > 0 {
			e.AddPaths(pathsToD(c.ClosedSubj, 100), c2.Subject, false)
		}
		e.AddPaths(pathsToD(c.Clip, 100), c2.Clip, false)
		cl, op := c2.PathsD{}, c2.PathsD{}
		ok = e.ExecuteOC(c.CT, c.FR, &cl, &op)
		return pathsFromD(cl, 100), pathsFromD(op, 100), ok
	}
	e := c2.NewClipper64()
	if withOpen && c.ViaAddPath {
		for _, p := range c.Open {
			e.AddPath(p, c2.Subject, true) // the single-path entry point keeps its own bookkeeping
		}
	} else if withOpen {
		e.AddPaths(c.Open, c2.Subject, true)
	}
	if len(c.ClosedSubj) > 0 {
		e.AddPaths(c.ClosedSubj, c2.Subject, false)
	}
	e.AddPaths(c.Clip, c2.Clip, false)
	closed, open = Paths{}, Paths{}
	ok = e.ExecuteOC(c.CT, c.FR, &closed, &open)
	return closed, open, ok
}

// followsPolyline: all vertices of rp lie within tol of ip in non-decreasing (or
// non-increasing) parameter order, and segment midpoints stay within 1.5*tol.
func followsPolyline(rp, ip Path, tol float64) bool {
	try := func(rp Path) bool {
		par := 0.0
		for _, v := range rp {
			par = polyParam(ip, v, par, tol)
			if par < 0 {
				return false
			}
		}
		for j := 0; j+1 < len(rp); j++ {
			m := P{X: (rp[j].X + rp[j+1].X) / 2, Y: (rp[j].Y + rp[j+1].Y) / 2}
			if kit.MinDistPath(m, ip, false) > tol+1 {
				return false
			}
		}
		return true
	}
	return try(rp) || try(c2.ReversePath(rp))
}

func judgeC09(c *C09Case, cx *Ctx) *Violation {
	c2.VerifStartRecording()
	closed, open, ok := runOpen(c, true)
	evs := stopRecording()
	if !ok {
		return violf("ExecuteOC returned false")
	}
	closedInputs := append(append(Paths{}, c.ClosedSubj...), c.Clip...)
	inClass, why := kit.NearDegenerate([]Paths{closedInputs, openAsClosedEdges(c.Open)}, true, nearTol)
	classOK := inClass && kfActive("C09", "class:near-degenerate")

	// the closed solution must not be altered by the presence of open paths
	closed0, _, ok0 := runOpen(c, false)
	if !ok0 {
		return violf("ExecuteOC without open paths returned false")
	}
	if !kit.PathsEqual(closed, closed0) {
		// Intersections with open edges split joined closed edges and move closed vertices
		// within the rounding band; "alter" is judged like every region statement: outside
		// the 2-unit band around the closed input edges. Exact differences are counted.
		cx.St.Count("closed_solution_vertex_lists_differ_within_band", 1)
		for _, q := range kit.Probes([]Paths{closedInputs, closed, closed0}, kit.ProbeOpt{Closed: true, Max: 3000}) {
			if !kit.FarFrom(q, closedInputs, true, band) {
				continue
			}
			w1, on1 := kit.Wind(closed, q)
			w0, on0 := kit.Wind(closed0, q)
			if on1 || on0 || (w1 != 0) != (w0 != 0) {
				if classOK {
					cx.St.Count("mismatch_attributed_to_listed_class", 1)
					continue
				}
				if k := attribute(q, evs); k != "" && kfActive("C09", kfKeyForEvent(k)) {
					cx.St.Count("mismatch_attributed_to_listed_callsite", 1)
					continue
				}
				return violf("open subject paths alter the closed solution at %v (more than 2 units from every closed input edge): winding %d with open paths, %d without; with=%v without=%v", q, w1, w0, closed, closed0)
			}
		}
	}
	// sub-polylines of the subject lines
	for k, rp := range open {
		if len(rp) == 0 {
			return violf("open solution path %d is empty: %v", k, open)
		}
		if len(rp) == 1 {
			cx.St.Count("single_point_open_solution_paths", 1) // a degenerate sub-polyline; must still lie on a subject
		}
		found := false
		for _, ip := range c.Open {
			if followsPolyline(rp, ip, 1.5) {
				found = true
				break
			}
		}
		if !found {
			if classOK {
				cx.St.Count("mismatch_attributed_to_listed_class", 1)
				continue
			}
			return violf("open solution path %d = %v is not a sub-polyline (within 1.5 units, in order) of any open subject %v; open solution %v", k, rp, c.Open, open)
		}
	}
	// coverage
	judged, nCov, nUncov, crossesClip := 0, 0, 0, false
	for oi, ip := range c.Open {
		for i := 0; i+1 < len(ip); i++ {
			a, b := ip[i], ip[i+1]
			if a == b {
				continue
			}
			if !crossesClip {
				for _, cp := range c.Clip {
					for e := range cp {
						if kit.SegsProperlyCross(a, b, cp[e], cp[(e+1)%len(cp)]) {
							crossesClip = true
						}
					}
				}
			}
			for _, t := range append([]float64{0.04, 0.2, 0.35, 0.5, 0.65, 0.8, 0.96}, c.Ts...) {
				q := P{X: a.X + int64(math.Round(t*float64(b.X-a.X))), Y: a.Y + int64(math.Round(t*float64(b.Y-a.Y)))}
				if !kit.FarFrom(q, closedInputs, true, 5) {
					continue
				}
				// more than 5 units from every other open segment
				clear := true
				for oj, jp := range c.Open {
					for j := 0; j+1 < len(jp) && clear; j++ {
						if oj == oi && j == i {
							continue
						}
						if jp[j] != jp[j+1] && kit.DistSeg(q, jp[j], jp[j+1]) <= 5 {
							clear = false
						}
					}
				}
				if !clear {
					continue
				}
				wc, _ := kit.Wind(c.Clip, q)
				ws, _ := kit.Wind(c.ClosedSubj, q)
				inClip, inSubj := kit.Fill(c.FR, wc), kit.Fill(c.FR, ws)
				var want bool
				switch c.CT {
				case c2.Intersection:
					want = inClip
				case c2.Difference:
					want = !inClip
				default:
					want = !inClip && !inSubj
				}
				got := kit.MinDist(q, open, false) <= 2.0
				judged++
				if want {
					nCov++
				} else {
					nUncov++
				}
				if got == want {
					continue
				}
				if classOK {
					cx.St.Count("mismatch_attributed_to_listed_class", 1)
					continue
				}
				return violf("point %v of open subject segment %v-%v: %s/%s wants covered=%v (clip winding %d, closed-subject winding %d) but covered=%v; open solution %v events=%s",
					q, a, b, ctName(c.CT), frName(c.FR), want, wc, ws, got, open, fmtEvents(evs))
			}
		}
	}
	// tree form: no open path among the tree polygons
	if !c.EngineD {
		e := c2.NewClipper64()
		e.AddPaths(c.Open, c2.Subject, true)
		if len(c.ClosedSubj) > 0 {
			e.AddPaths(c.ClosedSubj, c2.Subject, false)
		}
		e.AddPaths(c.Clip, c2.Clip, false)
		tree := c2.NewPolyTree64()
		op := c2.PathsD{}
		if !e.ExecutePolyTree64(c.CT, c.FR, tree, &op) {
			return violf("ExecutePolyTree64 returned false")
		}
		// the open solution handed back by the tree form is the one whose geometry was judged above
		if treeOpen := pathsFromD(op, 1); !kit.PathsEqual(treeOpen, open) {
			return violf("ExecutePolyTree64 open solution %v differs from ExecuteOC's open solution %v", treeOpen, open)
		}
		polys := treePolygons(tree.PolyPathBase)
		// C09 only demands that no open path shows up as a tree polygon: every tree polygon
		// must be one of the closed paths (the full tree == paths comparison is C04's)
		if v := sameMultiset(polys, closed); strings.HasPrefix(v, "only in first") {
			return violf("tree execution with open subjects: a tree polygon is not among the closed paths solution (%s): tree=%v closed=%v", v, polys, closed)
		}
	}
	if c.EngineD {
		e := c2.NewClipperD(2)
		e.AddPaths(pathsToD(c.Open, 100), c2.Subject, true)
		if len(c.ClosedSubj) > 0 {
			e.AddPaths(pathsToD(c.ClosedSubj, 100), c2.Subject, false)
		}
		e.AddPaths(pathsToD(c.Clip, 100), c2.Clip, false)
		tree := c2.NewPolyTreeD()
		op := c2.PathsD{}
		if !e.ExecutePolyTreeD(c.CT, c.FR, tree, &op) {
			return violf("ExecutePolyTreeD returned false")
		}
		if treeOpen := pathsFromD(op, 100); !kit.PathsEqual(treeOpen, open) {
			return violf("ExecutePolyTreeD open solution %v differs from ExecuteOC's open solution %v", treeOpen, open)
		}
		if v := sameMultiset(treePolygons(tree.PolyPathBase), closed); strings.HasPrefix(v, "only in first") {
			return violf("tree execution (D) with open subjects: a tree polygon is not among the closed paths solution (%s)", v)
		}
	}
	dom := "domain:strict"
	if inClass {
		dom = "domain:near-degenerate(" + why + ")"
	}
	cx.St.Eval(c, crossesClip && nCov > 0 && nUncov > 0, c.Fam.Label(), "op:"+ctName(c.CT)+"/"+frName(c.FR), boolLabel("engineD", c.EngineD), boolLabel("open-subjects-via-AddPath", c.ViaAddPath), boolLabel("closed-subject", len(c.ClosedSubj) > 0), dom)
	cx.St.Count("coverage_points_judged", int64(judged))
	return nil
}

func treePolygons(n *c2.PolyPathBase) Paths {
	var out Paths
	var walk func(*c2.PolyPathBase, bool)
	walk = func(m *c2.PolyPathBase, root bool) {
		if !root {
			out = append(out, m.Polygon())
		}
		for _, ch := range m.GetChildren() {
			walk(ch, false)
		}
	}
	walk(n, true)
	return out
}

func canonKey(p Path) string {
	// smallest rotation (lexicographic over the vertex sequence)
	n := len(p)
	best := ""
	for s := 0; s < n; s++ {
		if p[s] != minPoint(p) {
			continue
		}
		b := make([]byte, 0, n*16)
		for i := 0; i < n; i++ {
			v := p[(s+i)%n]
			b = appendInt(b, v.X)
			b = append(b, ',')
			b = appendInt(b, v.Y)
			b = append(b, ';')
		}
		if best == "" || string(b) < best {
			best = string(b)
		}
	}
	return best
}

func minPoint(p Path) P {
	m := p[0]
	for _, v := range p {
		if v.X < m.X || (v.X == m.X && v.Y < m.Y) {
			m = v
		}
	}
	return m
}

func appendInt(b []byte, v int64) []byte {
	if v < 0 {
		b = append(b, '-')
		v = -v
	}
	var tmp [20]byte
	i := len(tmp)
	for {
		i--
		tmp[i] = byte('0' + v%10)
		v /= 10
		if v == 0 {
			break
		}
	}
	return append(b, tmp[i:]...)
}

// sameMultiset compares two path lists as multisets of cyclic vertex sequences.
func sameMultiset(a, b Paths) string {
	cnt := map[string]int{}
	for _, p := range a {
		if len(p) > 0 {
			cnt[canonKey(p)]++
		}
	}
	for _, p := range b {
		if len(p) > 0 {
			cnt[canonKey(p)]--
		}
	}
	keys := make([]string, 0, len(cnt))
	for k := range cnt {
		keys = append(keys, k)
	}
	sort.Strings(keys)
	for _, k := range keys { // extras of the first list are reported first
		if cnt[k] > 0 {
			return "only in first: " + k
		}
	}
	for _, k := range keys {
		if cnt[k] < 0 {
			return "only in second: " + k
		}
	}
	return ""
}

func init() {
	defProp("C09",
		"rapid-generated open subject polylines (1-3 lines of 2-8 points; vertices on clip vertices / edge midpoints, horizontal segments, points of the same family as the closed paths) x closed clip paths (and optional closed subjects) of C01's families x {Intersection, Difference, Union} x 4 fill rules x {Clipper64 with the open subjects added by AddPaths or one by one by AddPath, ClipperD precision 2}; oracle: sample points of subject segments farther than 5 units from every closed input edge and every other open segment are within 2 units of the open solution exactly when inside clip (Intersection) / outside clip (Difference) / outside both closed regions (Union) by exact winding; every open solution path is a sub-polyline of a subject (1.5 units, either direction); the closed solution equals the closed solution without open paths; the PolyTree form (64-bit and D) holds exactly the closed paths and hands back the same open solution; non-trivial = a subject segment properly crosses a clip edge and covered as well as uncovered samples were judged",
		[]string{"sample points nearer than 5 units to closed edges or other open segments are not judged (sound subset of the statement's 2 units)"},
		drawC09, judgeC09)
}

func TestC09(t *testing.T) { runProp(t, "C09") }
