package props

import (
	"math"
	"testing"
	"time"

	c2 "github.com/bolom009/go-clipper2"
	"pgregory.net/rapid"

	"verifharness/kit"
)

// C13Case: a base case with a small or large extent, and a translation or an integer scaling.
type C13Case struct {
	Op     string      `json:"op"` // bool | rect | inflate | area | pip | simplify
	Subj   Paths       `json:"subj"`
	Clip   Paths       `json:"clip"`
	CT     c2.ClipType `json:"ct"`
	FR     c2.FillRule `json:"fr"`
	Rect   RectJ       `json:"rect"`
	Delta  float64     `json:"delta"`
	Join   c2.JoinType `json:"join"`
	Eps    float64     `json:"eps"`
	Open   bool        `json:"open,omitempty"` // simplify: open path (end points protected by sentinels)
	Q      P           `json:"q"`
	TX     int64       `json:"tx"`
	TY     int64       `json:"ty"`
	Scale  int64       `json:"scale"` // 1 = pure translation
	Extent int64       `json:"extent"`
}

func drawC13(t *rapid.T) *C13Case {
	c := &C13Case{Op: rapid.SampledFrom([]string{"bool", "bool", "rect", "inflate", "area", "pip", "simplify"}).Draw(t, "op")}
	ebits := rapid.IntRange(4, 29).Draw(t, "extentBits")
	E := int64(1) << ebits
	c.Extent = E
	f := Family{Kind: "g1", R: E, Spread: rapid.Bool().Draw(t, "spread")}
	switch c.Op {
	case "inflate":
		c.Subj = drawSimpleSet(t, float64(E)/3, false)
		c.Delta = rapid.Float64Range(-float64(E)/8, float64(E)/8).Draw(t, "delta")
		if math.Abs(c.Delta) < 1 {
			c.Delta = 1
		}
		c.Join = rapid.SampledFrom([]c2.JoinType{c2.Miter, c2.Square, c2.Bevel, c2.Round}).Draw(t, "join")
	default:
		c.Subj = drawClosedPaths(t, f, 1, 2, "subj")
		c.Clip = drawClosedPaths(t, f, 1, 2, "clip")
	}
	c.CT = rapid.SampledFrom(allClipTypes).Draw(t, "ct")
	c.FR = rapid.SampledFrom(allFillRules).Draw(t, "fr")
	c.Rect = drawRect(t, E)
	c.Eps = rapid.SampledFrom([]float64{0, 1, 2.5, float64(E) / 64, float64(E) / 8}).Draw(t, "eps")
	if c.Op == "simplify" && rapid.Bool().Draw(t, "zigzag") {
		// many decisions close to epsilon (the generator of C16)
		c.Subj = Paths{drawZigZag(t, E, c.Eps, rapid.IntRange(4, 30).Draw(t, "zn"))}
	}
	if c.Op == "simplify" {
		c.Open = rapid.Bool().Draw(t, "simplifyOpen")
	}
	c.Q = P{X: rapid.Int64Range(-E, E).Draw(t, "qx"), Y: rapid.Int64Range(-E, E).Draw(t, "qy")}
	if rapid.Bool().Draw(t, "translate") {
		c.Scale = 1
		lim := (int64(1) << 52) - 2*E
		tb := rapid.IntRange(20, 52).Draw(t, "transBits")
		m := min(int64(1)<<tb, lim)
		c.TX = rapid.Int64Range(-m, m).Draw(t, "tx")
		c.TY = rapid.Int64Range(-m, m).Draw(t, "ty")
		if rapid.IntRange(0, 3).Draw(t, "maxTrans") == 0 {
			c.TX, c.TY = lim*int64(rapid.SampledFrom([]int64{-1, 1}).Draw(t, "sx")), lim*int64(rapid.SampledFrom([]int64{-1, 1}).Draw(t, "sy"))
		}
	} else {
		maxS := (int64(1) << 61) / (2 * E)
		sb := rapid.IntRange(1, 57).Draw(t, "scaleBits")
		if rapid.IntRange(0, 2).Draw(t, "thresholdScale") == 0 {
			// land the transformed extent next to a width where arithmetic changes character
			// (int64 products of differences, float64 mantissa, the advertised limit)
			target := rapid.SampledFrom([]int{30, 31, 32, 33, 34, 47, 52, 53, 54, 60, 61}).Draw(t, "targetBits")
			sb = max(1, target-ebits-rapid.IntRange(0, 1).Draw(t, "targetSlack"))
		}
		if c.Op == "simplify" && rapid.Bool().Draw(t, "simplifyBranch") {
			// SimplifyPath64 switches from exact int64 cross products to floating point when a
			// coordinate difference reaches 2^31: put the largest differences around that switch
			sb = max(1, rapid.SampledFrom([]int{30, 31, 32, 32, 32, 33}).Draw(t, "diffBits")-ebits-1)
			if rapid.Bool().Draw(t, "fullSpans") {
				// products of two differences approach 2^64 only when the vertices span the whole
				// extent in both axes: uniform positions instead of rapid's small-biased ones
				var p Path
				for i, n := 0, rapid.IntRange(4, 9).Draw(t, "sn"); i < n; i++ {
					p = append(p, P{X: spreadCoord(rapid.Int64Range(-E, E).Draw(t, "sx"), E), Y: spreadCoord(rapid.Int64Range(-E, E).Draw(t, "sy"), E)})
				}
				c.Subj = Paths{p}
			}
		}
		s := int64(1) << sb
		if c.Op != "simplify" && rapid.Bool().Draw(t, "oddScale") {
			s = s/2*3 + 1
		}
		c.Scale = max(2, min(s, maxS))
	}
	return c
}

func (c *C13Case) T(p P) P { return P{X: p.X*c.Scale + c.TX, Y: p.Y*c.Scale + c.TY} }

func (c *C13Case) TPaths(ps Paths) Paths { return mapPaths(ps, c.T) }

// extentClass: a coordinate difference of the transformed input exceeds 2^31, i.e. the
// int64 products of two differences formed all over the library are no longer exact
// (listed finding F27).
func (c *C13Case) bigExtent(ps ...Paths) bool {
	var all Paths
	for _, p := range ps {
		all = append(all, p...)
	}
	minX, minY, maxX, maxY, ok := kit.Bounds(all)
	if !ok {
		return false
	}
	return maxX-minX >= 1<<31 || maxY-minY >= 1<<31
}

// runAbandonable runs f in its own goroutine and gives up after the deadline (the goroutine
// is left spinning; used only in the domain of listed finding F27, where a hang is attributed).
func runAbandonable(f func()) (finished bool) {
	done := make(chan struct{})
	go func() {
		defer func() { _ = recover(); close(done) }()
		f()
	}()
	select {
	case <-done:
		return true
	case <-time.After(c03Deadline):
		return false
	}
}

func judgeC13(c *C13Case, cx *Ctx) *Violation {
	if c.Scale > 1 && c.bigExtent(c.TPaths(c.Subj), c.TPaths(c.Clip)) && kfActive("C13", "class:extent-exceeds-2^31") {
		// in the F27 domain the library may not terminate: run it abandonably
		var v *Violation
		if !runAbandonable(func() { v = judgeC13Inner(c, cx) }) {
			cx.St.Count("hang_attributed_to_listed_class_extent(F27)", 1)
			return nil
		}
		return v
	}
	watchdogArm("C13", c) // a call that never returns at large magnitudes is a violation too
	defer watchdogDisarm()
	return judgeC13Inner(c, cx)
}

func judgeC13Inner(c *C13Case, cx *Ctx) *Violation {
	s := float64(c.Scale)
	subjT, clipT := c.TPaths(c.Subj), c.TPaths(c.Clip)
	big := c.bigExtent(subjT, clipT)
	bigOK := big && kfActive("C13", "class:extent-exceeds-2^31")
	labels := []string{"op:" + c.Op, magLabel(c), boolLabel("extent>2^31", big)}
	floatOK := false
	excuse := func() bool {
		if floatOK {
			cx.St.Count("mismatch_attributed_to_listed_class_offset_float", 1)
			return true
		}
		if bigOK {
			cx.St.Count("mismatch_attributed_to_listed_class_extent", 1)
			return true
		}
		return false
	}
	extT := float64(c.Extent) * s * 2
	bandT := band
	if c.Scale > 1 {
		bandT = band + extT*math.Pow(2, -40)
	}
	switch c.Op {
	case "area":
		p := first(c.Subj)
		a0, a1 := c2.Area64(p), c2.Area64(first(subjT))
		want := halfToFloat(kit.Area2Lib(first(subjT)))
		if math.Abs(a1-want) > 1e-12*math.Abs(want) {
			if !excuse() {
				return violf("Area64 of the transformed path (scale %d, shift (%d,%d)) = %v, exact %v (base path %v, base area %v)", c.Scale, c.TX, c.TY, a1, want, p, a0)
			}
		}
		if c2.IsPositive64(first(subjT)) != (kit.Area2Lib(first(subjT)).Sign() >= 0) && !excuse() {
			return violf("IsPositive64 of the transformed path (scale %d, shift (%d,%d)) disagrees with the exact sign; base path %v", c.Scale, c.TX, c.TY, p)
		}
		cx.St.Eval(c, len(p) >= 3, labels...)
		return nil
	case "pip":
		p := first(c.Subj)
		if len(p) < 3 {
			cx.St.Eval(c, false, labels...)
			return nil
		}
		r0, r1 := c2.PointInPolygon(c.Q, p), c2.PointInPolygon(c.T(c.Q), first(subjT))
		if r0 != r1 && !excuse() {
			return violf("PointInPolygon(%v, %v) = %s but %s after scaling by %d and shifting by (%d,%d)", c.Q, p, pipName(r0), pipName(r1), c.Scale, c.TX, c.TY)
		}
		cx.St.Eval(c, true, labels...)
		return nil
	case "simplify":
		if c.Scale&(c.Scale-1) != 0 {
			// an exact tie (distance == epsilon) survives scaling by a power of two only;
			// other factors round differently, which is no magnitude defect (cf. C16's statement)
			cx.St.Eval(c, false, append(labels, "skipped:simplify-non-power-of-two-scale")...)
			return nil
		}
		p := first(c.Subj)
		r0 := c2.SimplifyPath64(p, c.Eps, !c.Open)
		r1 := c2.SimplifyPath64(first(subjT), c.Eps*s, !c.Open)
		// (no excuse for large extents here: SimplifyPath64 measures distances in floating
		// point beyond 2^31 and is not in the domain of the listed overflow finding)
		if !kit.PathsEqual(Paths{mapPaths(Paths{r0}, c.T)[0]}, Paths{r1}) {
			return violf("SimplifyPath64 keeps different vertices after scaling by %d and shifting by (%d,%d): %v vs (transformed back) base result %v; path %v eps %v", c.Scale, c.TX, c.TY, r1, r0, p, c.Eps)
		}
		cx.St.Eval(c, len(r0) < len(p), append(labels, boolLabel("simplify-open-path", c.Open))...)
		return nil
	}

	// region operations: absolute oracle on the transformed input and comparison with the base result
	var solT, sol0 Paths
	var evs0, evsT []c2.VerifEvent
	nearDeg := 0 // 0 unknown, 1 no, 2 yes
	engineExcuse13 := func(q0, q P) bool {
		if k := attribute(q0, evs0); k != "" && kfActive("C13", kfKeyForEvent(k)) {
			return true
		}
		if k := attribute(q, evsT); k != "" && kfActive("C13", kfKeyForEvent(k)) {
			return true
		}
		if !kfActive("C13", "class:near-degenerate") || c.Op == "inflate" {
			return false
		}
		if nearDeg == 0 {
			nearDeg = 1
			a, _ := kit.NearDegenerate([]Paths{c.Subj, c.Clip, {c.Rect.path()}}, true, nearTol)
			b, _ := kit.NearDegenerate([]Paths{subjT, clipT}, true, nearTol)
			if a || b {
				nearDeg = 2
			}
		}
		return nearDeg == 2
	}
	var want func(q P) (bool, bool) // (inside?, judged?)
	var avoid Paths
	switch c.Op {
	case "bool":
		sol0, evs0 = runBoolean(0, c.CT, c.FR, c.Subj, c.Clip)
		solT, evsT = runBoolean(0, c.CT, c.FR, subjT, clipT)
		avoid = append(append(Paths{}, subjT...), clipT...)
		want = func(q P) (bool, bool) {
			ws, _ := kit.Wind(subjT, q)
			wc, _ := kit.Wind(clipT, q)
			return kit.BoolOp(c.CT, kit.Fill(c.FR, ws), kit.Fill(c.FR, wc)), true
		}
	case "rect":
		if bigOK {
			// listed finding F27: with overflowing products the rectangle clipper may not even
			// terminate (witness F27-rectclip-hang); not run in that domain
			cx.St.Eval(c, false, append(labels, "skipped:rect-clip-at-extent>2^31(F27)")...)
			return nil
		}
		r := c.Rect
		rT := RectJ{L: r.L*c.Scale + c.TX, T: r.T*c.Scale + c.TY, R: r.R*c.Scale + c.TX, B: r.B*c.Scale + c.TY}
		sol0 = c2.RectClipPaths64(r.rect(), c.Subj)
		solT = c2.RectClipPaths64(rT.rect(), subjT)
		avoid = append(append(Paths{}, subjT...), rT.path())
		// absolute correctness of rectangle clipping is C06's business (it compares winding
		// numbers); here only the dependence on the magnitude is judged
		want = func(q P) (bool, bool) { return false, false }
	case "inflate":
		if maxAbsPaths(subjT) >= 1<<50 && kfActive("C13", "class:offset-beyond-2^50") {
			// listed finding F46: join geometry is computed in absolute float64 coordinates
			floatOK = true
		}
		sol0 = c2.InflatePaths64(c.Subj, c.Delta, c.Join, c2.Polygon)
		solT = c2.InflatePaths64(subjT, c.Delta*s, c.Join, c2.Polygon)
		avoid = c.TPaths(sol0) // only the metamorphic relation is judged here (C05 has the absolute oracle)
		bandT += 1.5           // offset points are rounded again in the transformed frame
		want = func(q P) (bool, bool) { return false, false }
	}
	base := kit.Probes([]Paths{c.Subj, c.Clip, sol0}, kit.ProbeOpt{Closed: true, Max: 2500})
	judged, nIn, nOut := 0, 0, 0
	for _, q0 := range base {
		q := c.T(q0)
		if !kit.FarFrom(q, avoid, true, bandT) {
			continue
		}
		if c.Op != "inflate" && !kit.FarFrom(q0, append(append(Paths{}, c.Subj...), c.Clip...), true, band) {
			continue
		}
		if c.Op == "inflate" && (!kit.FarFrom(q0, sol0, true, band+1.5) || !kit.FarFrom(q, solT, true, (band+1.5)*s)) {
			continue // the base result is only accurate to its own rounding band, in base units
		}
		judged++
		wT, onT := kit.Wind(solT, q)
		w0, on0 := kit.Wind(sol0, q0)
		if w0 != 0 {
			nIn++
		} else {
			nOut++
		}
		if wantIn, ok := want(q); ok && (onT || (wT != 0) != wantIn) {
			if excuse() || engineExcuse13(q0, q) {
				cx.St.Count("mismatch_excused", 1)
				continue
			}
			return violf("%s on the input scaled by %d and shifted by (%d,%d): at %v the exact answer is inside=%v but the result has winding %d (on edge %v); base input subj=%v clip=%v rect=%+v",
				c.Op, c.Scale, c.TX, c.TY, q, wantIn, wT, onT, c.Subj, c.Clip, c.Rect)
		}
		if !on0 && !onT && (w0 != 0) != (wT != 0) {
			if excuse() || engineExcuse13(q0, q) {
				cx.St.Count("mismatch_excused", 1)
				continue
			}
			return violf("%s: the result changes with the coordinate magnitude: base result has winding %d at %v, the result for the input scaled by %d and shifted by (%d,%d) has winding %d at the image %v; base input subj=%v clip=%v rect=%+v delta=%v",
				c.Op, w0, q0, c.Scale, c.TX, c.TY, wT, q, c.Subj, c.Clip, c.Rect, c.Delta)
		}
	}
	cx.St.Eval(c, nIn > 0 && nOut > 0, labels...)
	cx.St.Count("probes_judged", int64(judged))
	return nil
}

func magLabel(c *C13Case) string {
	m := math.Max(math.Abs(float64(c.TX)), float64(c.Extent)*float64(c.Scale))
	switch {
	case m >= math.Pow(2, 52):
		return "magnitude:>=2^52"
	case m >= math.Pow(2, 40):
		return "magnitude:2^40..2^52"
	case m >= math.Pow(2, 31):
		return "magnitude:2^31..2^40"
	}
	return "magnitude:<2^31"
}

func init() {
	defProp("C13",
		"rapid-generated base cases (boolean operation, rectangle clipping, polygon inflation of a verified simple set, Area64/IsPositive64, PointInPolygon, SimplifyPath64 of closed and of open paths) with extents 2^4..2^29, and a transform: translation by up to +-2^52 (one quarter at the limit) or scaling by an integer factor (powers of two and odd factors) up to 2^61/extent; oracle: exact (128-bit) winding of the transformed input at the images of the base probes farther than the band from all edges in both frames (band 2, plus 2^-40 of the extent when scaling), the same membership as the base result (metamorphic), Area64 within 1e-12 of the exact value and IsPositive64 its sign, PointInPolygon identical, SimplifyPath64 keeping the same vertices; non-trivial = probes inside and outside / non-degenerate operand",
		[]string{"the oracle kit switches to 128-bit products when a difference exceeds 2^31, so it is exact over the whole advertised range"},
		drawC13, judgeC13)
}

func TestC13(t *testing.T) { runProp(t, "C13") }
