// vcheck is the driver behind /verif/check: it builds the property test binary from
// /repo's current working tree (hooks on), replays the committed witnesses of the
// property, runs the generated search in parallel shards, merges their statistics into
// /verif/evidence/<id>.json and reports VIOLATION / KNOWN-FINDING lines.
//
// Exit codes: 0 property held on everything explored; 1 violation (a VIOLATION line
// was printed); 2 infrastructure trouble (build failure, shard killed, bad config).
package main

import (
	"bytes"
	"context"
	"encoding/binary"
	"encoding/json"
	"errors"
	"fmt"
	"hash/fnv"
	"os"
	"os/exec"
	"path/filepath"
	"sort"
	"strconv"
	"strings"
	"sync"
	"syscall"
	"time"
)

// verifRoot is the directory that holds check, harness/, known_findings.json, evidence/.
var verifRoot = envOr("VERIF_ROOT", "/verif")

type tierCfg struct {
	Shards   int      `json:"shards"`
	Checks   int      `json:"checks"`
	TimeoutS int      `json:"timeout_s"`
	Race     bool     `json:"race"`
	FuzzS    int      `json:"fuzz_s"`     // native fuzzing budget in seconds (thorough C03 only)
	Test     string   `json:"test"`       // test function name, default Test<ID>
	ShrinkS  int      `json:"shrink_s"`   // rapid shrink time, default 20
	MemMB    int      `json:"mem_mb"`     // per-shard address space limit, default 6000
	Extra    []string `json:"extra_args"` // extra args to the test binary
}

type knownFinding struct {
	ID       string   `json:"id"`
	Property string   `json:"property"`
	Status   string   `json:"status"`
	Kind     string   `json:"kind"`
	Key      string   `json:"key"`
	What     string   `json:"what"`
	Commit   string   `json:"commit,omitempty"`
	Witness  []string `json:"witness"`
	// ReplayKeep: known-finding keys that stay excused while this (fixed) finding's
	// witnesses are replayed; everything else is judged without excuses.
	ReplayKeep []string `json:"replay_keep,omitempty"`
}

func fatal2(format string, a ...any) {
	fmt.Fprintf(os.Stderr, "INFRA: "+format+"\n", a...)
	os.Exit(2)
}

func main() {
	if len(os.Args) < 2 {
		fatal2("usage: vcheck <ID> [quick|thorough] [--replay FILE]")
	}
	id := os.Args[1]
	tier := os.Getenv("VERIF_TIER")
	replay := ""
	args := os.Args[2:]
	for i := 0; i < len(args); i++ {
		switch args[i] {
		case "quick", "thorough":
			tier = args[i]
		case "--replay":
			if i+1 >= len(args) {
				fatal2("--replay needs a file")
			}
			replay = args[i+1]
			i++
		default:
			fatal2("unknown argument %q", args[i])
		}
	}
	if tier != "thorough" {
		tier = "quick"
	}
	seed := int64(1)
	if s := os.Getenv("VERIF_SEED"); s != "" {
		v, err := strconv.ParseInt(s, 10, 64)
		if err != nil {
			fatal2("VERIF_SEED=%q is not an integer", s)
		}
		seed = v
	}
	start := time.Now()

	cfgAll := map[string]map[string]tierCfg{}
	b, err := os.ReadFile(filepath.Join(verifRoot, "harness", "tiers.json"))
	if err != nil {
		fatal2("%v", err)
	}
	if err := json.Unmarshal(b, &cfgAll); err != nil {
		fatal2("tiers.json: %v", err)
	}
	cfg, ok := cfgAll[id][tier]
	if !ok {
		fatal2("no configuration for %s/%s in tiers.json", id, tier)
	}
	if cfg.Test == "" {
		cfg.Test = "Test" + id
	}
	if cfg.ShrinkS == 0 {
		cfg.ShrinkS = 20
	}
	if cfg.MemMB == 0 {
		cfg.MemMB = 8000
	}

	bin := build(cfg.Race)

	if replay != "" {
		abs := replay
		if !filepath.IsAbs(abs) {
			abs = filepath.Join(envOr("VERIF_CWD", verifRoot), abs)
		}
		viol, msg := runReplay(bin, abs, false)
		if viol {
			fmt.Printf("VIOLATION property=%s replay=%s\n", id, abs)
			fmt.Println(firstLine(msg))
			os.Exit(1)
		}
		fmt.Printf("replay %s: property %s holds on this case\n", abs, id)
		os.Exit(0)
	}

	// --- witness tier -------------------------------------------------------------
	violations := 0
	kfs := loadKF()
	knownLines := 0
	witnessesRun := 0
	for _, f := range kfs {
		if f.Property != id {
			continue
		}
		stillFails := false
		for _, w := range f.Witness {
			wp := filepath.Join(verifRoot, w)
			viol, msg := runReplay(bin, wp, true, f.ReplayKeep...)
			witnessesRun++
			if viol {
				stillFails = true
				if f.Status == "fixed" {
					fmt.Printf("VIOLATION property=%s replay=%s\n", id, wp)
					fmt.Printf("  (regression of fixed finding %s: %s) %s\n", f.ID, f.What, firstLine(msg))
					violations++
				}
			}
		}
		if f.Status == "known" && (stillFails || len(f.Witness) == 0) {
			fmt.Printf("KNOWN-FINDING: property=%s %s [%s]\n", id, f.What, f.ID)
			knownLines++
		}
	}

	// --- generated search ---------------------------------------------------------
	outDir, err := os.MkdirTemp("", "vcheck-"+id+"-")
	if err != nil {
		fatal2("%v", err)
	}
	defer os.RemoveAll(outDir)

	type shardRes struct {
		k       int
		err     error
		timeout bool
		out     []byte
	}
	results := make([]shardRes, cfg.Shards)
	var wg sync.WaitGroup
	deadline := time.Duration(cfg.TimeoutS) * time.Second
	for k := 0; k < cfg.Shards; k++ {
		wg.Add(1)
		go func(k int) {
			defer wg.Done()
			rs := shardSeed(seed, k)
			ctx, cancel := context.WithTimeout(context.Background(), deadline)
			defer cancel()
			argv := []string{
				"-test.run", "^" + cfg.Test + "$", "-test.timeout", "0", "-test.count", "1",
				"-rapid.checks", strconv.Itoa(cfg.Checks), "-rapid.seed", strconv.FormatUint(rs, 10),
				"-rapid.nofailfile", "-rapid.shrinktime", fmt.Sprintf("%ds", cfg.ShrinkS),
			}
			argv = append(argv, cfg.Extra...)
			// ulimit -v guards the box against a runaway shard
			sh := fmt.Sprintf("ulimit -v %d; exec %s %s", cfg.MemMB*1024, shellQuote(bin), shellJoin(argv))
			if cfg.Race {
				// the race detector reserves terabytes of address space: no ulimit -v
				sh = fmt.Sprintf("exec %s %s", shellQuote(bin), shellJoin(argv))
			}
			cmd := exec.CommandContext(ctx, "bash", "-c", sh)
			cmd.Dir = filepath.Join(verifRoot, "harness", "props")
			cmd.Env = append(os.Environ(), "VERIF_OUT="+outDir, "VERIF_SHARD="+strconv.Itoa(k), "VERIF_TIER="+tier,
				"VERIF_KF="+filepath.Join(verifRoot, "known_findings.json"), "GORACE=halt_on_error=1")
			cmd.SysProcAttr = &syscall.SysProcAttr{Setpgid: true}
			cmd.Cancel = func() error { return syscall.Kill(-cmd.Process.Pid, syscall.SIGKILL) }
			var buf bytes.Buffer
			cmd.Stdout, cmd.Stderr = &buf, &buf
			err := cmd.Run()
			results[k] = shardRes{k: k, err: err, timeout: ctx.Err() == context.DeadlineExceeded, out: buf.Bytes()}
		}(k)
	}
	wg.Wait()

	infra := false
	for _, r := range results {
		ff := filepath.Join(outDir, fmt.Sprintf("failure.%d.json", r.k))
		if fb, err := os.ReadFile(ff); err == nil {
			dst := saveReplay(id, fb)
			fmt.Printf("VIOLATION property=%s replay=%s\n", id, dst)
			var f struct {
				Msg string `json:"msg"`
			}
			_ = json.Unmarshal(fb, &f)
			fmt.Printf("  shard %d (rapid seed %d): %s\n", r.k, shardSeed(seed, r.k), clip(firstLine(f.Msg), 600))
			violations++
			continue
		}
		if r.timeout {
			// hangs are detected in-process (watchdog with its own failure file); running
			// into the shard's wall-clock cap only means the budget was too small
			fmt.Fprintf(os.Stderr, "INFRA: shard %d exceeded the wall-clock cap of %v (inconclusive)\n", r.k, deadline)
			infra = true
			continue
		}
		if r.err != nil && bytes.Contains(r.out, []byte("DATA RACE")) {
			if rp := hangReport(id, outDir, r.k); rp != "" {
				fmt.Printf("VIOLATION property=%s replay=%s\n", id, rp)
				fmt.Printf("  shard %d: the race detector reported a data race:\n%s\n", r.k, clip(string(r.out), 1500))
				violations++
				continue
			}
		}
		if r.err != nil && fatalRuntimeError(r.out) != "" {
			// The Go runtime killed the process (stack overflow by unbounded recursion, concurrent
			// map access, ...): nothing in-process can record the case. The run is a pure function
			// of the rapid seed, so the shard is run again with a per-case journal.
			if rp := rerunWithJournal(id, tier, bin, cfg, seed, r.k, deadline); rp != "" {
				fmt.Printf("VIOLATION property=%s replay=%s\n", id, rp)
				fmt.Printf("  shard %d (rapid seed %d): the process died with a fatal runtime error: %s\n", r.k, shardSeed(seed, r.k), fatalRuntimeError(r.out))
				violations++
				continue
			}
		}
		if r.err != nil {
			fmt.Fprintf(os.Stderr, "INFRA: shard %d failed without a counter-example: %v\n%s\n", r.k, r.err, clip(string(r.out), 1200))
			infra = true
		}
	}

	ev, err := mergeEvidence(id, tier, seed, cfg, outDir, time.Since(start).Seconds(), violations, knownLines, witnessesRun)
	if err != nil {
		fmt.Fprintf(os.Stderr, "INFRA: evidence: %v\n", err)
		infra = true
	} else {
		fmt.Printf("%s %s seed=%d: evaluations=%d distinct_nontrivial=%d shards=%d wall=%.1fs violations=%d\n",
			id, tier, seed, ev.evals, ev.distinct, cfg.Shards, time.Since(start).Seconds(), violations)
	}
	os.RemoveAll(outDir) // (os.Exit does not run deferred calls)
	if violations > 0 {
		os.Exit(1)
	}
	if infra {
		os.Exit(2)
	}
	os.Exit(0)
}

// fatalRuntimeError returns the first line of a Go runtime fatal error in a shard's output
// ("" if there is none). Memory exhaustion is excluded: under ulimit -v it says nothing about
// the library.
func fatalRuntimeError(out []byte) string {
	s := string(out)
	if strings.Contains(s, "out of memory") || strings.Contains(s, "cannot allocate memory") {
		return ""
	}
	for _, key := range []string{"fatal error: ", "runtime: goroutine stack exceeds"} {
		if i := strings.Index(s, key); i >= 0 {
			return clip(firstLine(s[i:]), 200)
		}
	}
	return ""
}

// rerunWithJournal repeats one shard with VERIF_JOURNAL=1 (the judge wrapper then writes every
// case to journal.<k>.json before judging it) and turns the last journal entry into a replay
// file if the process dies again.
func rerunWithJournal(id, tier, bin string, cfg tierCfg, seed int64, k int, deadline time.Duration) string {
	dir, err := os.MkdirTemp("", "vjournal-"+id+"-")
	if err != nil {
		return ""
	}
	defer os.RemoveAll(dir)
	ctx, cancel := context.WithTimeout(context.Background(), 2*deadline)
	defer cancel()
	argv := []string{
		"-test.run", "^" + cfg.Test + "$", "-test.timeout", "0", "-test.count", "1",
		"-rapid.checks", strconv.Itoa(cfg.Checks), "-rapid.seed", strconv.FormatUint(shardSeed(seed, k), 10),
		"-rapid.nofailfile", "-rapid.shrinktime", fmt.Sprintf("%ds", cfg.ShrinkS),
	}
	argv = append(argv, cfg.Extra...)
	sh := fmt.Sprintf("ulimit -v %d; exec %s %s", cfg.MemMB*1024, shellQuote(bin), shellJoin(argv))
	if cfg.Race {
		sh = fmt.Sprintf("exec %s %s", shellQuote(bin), shellJoin(argv))
	}
	cmd := exec.CommandContext(ctx, "bash", "-c", sh)
	cmd.Dir = filepath.Join(verifRoot, "harness", "props")
	cmd.Env = append(os.Environ(), "VERIF_OUT="+dir, "VERIF_SHARD="+strconv.Itoa(k), "VERIF_TIER="+tier, "VERIF_JOURNAL=1",
		"VERIF_KF="+filepath.Join(verifRoot, "known_findings.json"), "GORACE=halt_on_error=1")
	cmd.SysProcAttr = &syscall.SysProcAttr{Setpgid: true}
	cmd.Cancel = func() error { return syscall.Kill(-cmd.Process.Pid, syscall.SIGKILL) }
	out, err := cmd.CombinedOutput()
	if err == nil || fatalRuntimeError(out) == "" {
		return "" // did not die again: not reproducible, stays an infrastructure failure
	}
	jb, jerr := os.ReadFile(filepath.Join(dir, fmt.Sprintf("journal.%d.json", k)))
	if jerr != nil {
		return ""
	}
	var f struct {
		Property string          `json:"property"`
		Msg      string          `json:"msg"`
		Case     json.RawMessage `json:"case"`
	}
	if json.Unmarshal(jb, &f) != nil {
		return ""
	}
	f.Msg = "the process died with a fatal runtime error while this case was judged: " + fatalRuntimeError(out)
	nb, _ := json.MarshalIndent(f, "", " ")
	return saveReplay(id, nb)
}

func envOr(k, d string) string {
	if v := os.Getenv(k); v != "" {
		return v
	}
	return d
}

func shardSeed(seed int64, k int) uint64 {
	u := uint64(seed)*1000003 + uint64(k)
	u %= (1 << 62)
	return u + 1
}

func shellQuote(s string) string { return "'" + strings.ReplaceAll(s, "'", `'\''`) + "'" }

func shellJoin(a []string) string {
	q := make([]string, len(a))
	for i, s := range a {
		q[i] = shellQuote(s)
	}
	return strings.Join(q, " ")
}

func firstLine(s string) string {
	if i := strings.IndexByte(s, '\n'); i >= 0 {
		return s[:i]
	}
	return s
}

func clip(s string, n int) string {
	if len(s) > n {
		return s[:n] + "..."
	}
	return s
}

func goEnv() []string {
	env := os.Environ()
	env = append(env, "GOFLAGS=-mod=mod", "GOPROXY=off", "GOTOOLCHAIN=auto")
	return env
}

// build compiles the props test binary against /repo's working tree with the hooks on.
func build(race bool) string {
	name := "props.test"
	args := []string{"test", "-tags", "verif", "-c"}
	if race {
		name = "props.race.test"
		args = append(args, "-race")
	}
	bin := filepath.Join(verifRoot, "harness", "bin", name)
	_ = os.MkdirAll(filepath.Dir(bin), 0o755)
	args = append(args, "-o", bin, "./props")
	cmd := exec.Command("go", args...)
	cmd.Dir = filepath.Join(verifRoot, "harness")
	cmd.Env = goEnv()
	out, err := cmd.CombinedOutput()
	if err != nil {
		fatal2("building the harness against /repo failed: %v\n%s", err, out)
	}
	return bin
}

func runReplay(bin, file string, noKF bool, keep ...string) (violation bool, msg string) {
	dir, err := os.MkdirTemp("", "vreplay-")
	if err != nil {
		fatal2("%v", err)
	}
	defer os.RemoveAll(dir)
	ctx, cancel := context.WithTimeout(context.Background(), 120*time.Second)
	defer cancel()
	cmd := exec.CommandContext(ctx, bin, "-test.run", "^TestReplay$", "-test.count", "1", "-test.timeout", "100s")
	cmd.Dir = filepath.Join(verifRoot, "harness", "props")
	kf := filepath.Join(verifRoot, "known_findings.json")
	if noKF {
		// witnesses of listed findings are judged with no finding excused, so that the
		// KNOWN-FINDING line is printed only while the defect is really still there
		kf = "/dev/null"
	}
	cmd.Env = append(os.Environ(), "VERIF_OUT="+dir, "VERIF_REPLAY="+file, "VERIF_KF="+kf, "GORACE=halt_on_error=1")
	if noKF && len(keep) > 0 {
		cmd.Env = append(cmd.Env, "VERIF_KF="+filepath.Join(verifRoot, "known_findings.json"), "VERIF_KF_KEEP="+strings.Join(keep, ","))
	}
	out, err := cmd.CombinedOutput()
	rb, rerr := os.ReadFile(filepath.Join(dir, "replay-result.json"))
	if rerr != nil {
		// the in-process watchdog ends a replay that hangs and leaves the case as a failure file
		if fb, ferr := os.ReadFile(filepath.Join(dir, "failure.0.json")); ferr == nil {
			var f struct {
				Msg string `json:"msg"`
			}
			_ = json.Unmarshal(fb, &f)
			return true, f.Msg
		}
		if strings.Contains(string(out), "DATA RACE") {
			return true, "the race detector reported a data race during the replay"
		}
		if ctx.Err() == context.DeadlineExceeded || strings.Contains(string(out), "test timed out") {
			return true, "replay did not finish within 100 s (hang)"
		}
		if fe := fatalRuntimeError(out); fe != "" {
			return true, "the replay process died with a fatal runtime error: " + fe
		}
		fatal2("replay of %s produced no verdict: %v\n%s", file, err, clip(string(out), 3000))
	}
	var res struct {
		Violation bool   `json:"violation"`
		Msg       string `json:"msg"`
	}
	if err := json.Unmarshal(rb, &res); err != nil {
		fatal2("replay result: %v", err)
	}
	return res.Violation, res.Msg
}

func loadKF() []knownFinding {
	b, err := os.ReadFile(filepath.Join(verifRoot, "known_findings.json"))
	if err != nil {
		return nil
	}
	var doc struct {
		Findings []knownFinding `json:"findings"`
	}
	if err := json.Unmarshal(b, &doc); err != nil {
		fatal2("known_findings.json: %v", err)
	}
	return doc.Findings
}

func saveReplay(id string, content []byte) string {
	h := fnv.New64a()
	h.Write(content)
	dir := filepath.Join(verifRoot, "replay", id)
	_ = os.MkdirAll(dir, 0o755)
	dst := filepath.Join(dir, fmt.Sprintf("%016x.json", h.Sum64()))
	_ = os.WriteFile(dst, content, 0o644)
	return dst
}

// hangReport turns the journal entry of a shard that was killed by the deadline into a
// replay file (C03's "no hang"). Only properties that keep a journal produce one.
func hangReport(id, outDir string, k int) string {
	jb, err := os.ReadFile(filepath.Join(outDir, fmt.Sprintf("journal.%d.json", k)))
	if err != nil {
		return ""
	}
	return saveReplay(id, jb)
}

type merged struct {
	evals, distinct int64
}

func mergeEvidence(id, tier string, seed int64, cfg tierCfg, outDir string, wall float64, violations, knownLines, witnesses int) (merged, error) {
	type stats struct {
		Evaluations int64             `json:"evaluations"`
		Nontrivial  int64             `json:"nontrivial_total"`
		Labels      map[string]int64  `json:"labels"`
		Counters    map[string]int64  `json:"counters"`
		Samples     []json.RawMessage `json:"samples"`
	}
	var total stats
	total.Labels = map[string]int64{}
	total.Counters = map[string]int64{}
	var hashes []uint64
	var meta struct {
		Rule        string   `json:"rule"`
		Assumptions []string `json:"assumptions"`
	}
	shardsSeen := 0
	var seeds []uint64
	for k := 0; k < cfg.Shards; k++ {
		base := filepath.Join(outDir, fmt.Sprintf("stats.%d", k))
		b, err := os.ReadFile(base + ".json")
		if err != nil {
			continue
		}
		var s stats
		if err := json.Unmarshal(b, &s); err != nil {
			return merged{}, err
		}
		shardsSeen++
		seeds = append(seeds, shardSeed(seed, k))
		total.Evaluations += s.Evaluations
		total.Nontrivial += s.Nontrivial
		for l, n := range s.Labels {
			total.Labels[l] += n
		}
		for l, n := range s.Counters {
			total.Counters[l] += n
		}
		for _, smp := range s.Samples {
			if len(total.Samples) < 8 {
				total.Samples = append(total.Samples, smp)
			}
		}
		if hb, err := os.ReadFile(base + ".hashes"); err == nil {
			for i := 0; i+8 <= len(hb); i += 8 {
				hashes = append(hashes, binary.LittleEndian.Uint64(hb[i:]))
			}
		}
		if mb, err := os.ReadFile(base + ".meta.json"); err == nil && meta.Rule == "" {
			_ = json.Unmarshal(mb, &meta)
		}
	}
	if shardsSeen == 0 {
		return merged{}, errors.New("no shard wrote statistics")
	}
	sort.Slice(hashes, func(i, j int) bool { return hashes[i] < hashes[j] })
	distinct := int64(0)
	for i := range hashes {
		if i == 0 || hashes[i] != hashes[i-1] {
			distinct++
		}
	}
	cov := map[string]any{
		"evaluations":         total.Evaluations,
		"distinct_nontrivial": distinct,
		"nontrivial_total":    total.Nontrivial,
		"rule":                meta.Rule,
		"samples":             total.Samples,
		"labels":              total.Labels,
		"counters":            total.Counters,
		"shards":              shardsSeen,
		"rapid_seeds":         seeds,
		"checks_per_shard":    cfg.Checks,
		"witnesses_replayed":  witnesses,
		"known_finding_lines": knownLines,
		"exhaustive":          false,
	}
	if len(total.Samples) == 0 {
		cov["samples"] = []any{"(no non-trivial case was generated in this run)"}
	}
	doc := map[string]any{
		"property_id": id,
		"tier":        tier,
		"seed":        seed,
		"level":       "exploration",
		"coverage":    cov,
		"assumptions": meta.Assumptions,
		"wall_s":      wall,
		"violations":  violations,
	}
	b, err := json.MarshalIndent(doc, "", " ")
	if err != nil {
		return merged{}, err
	}
	_ = os.MkdirAll(filepath.Join(verifRoot, "evidence"), 0o755)
	if err := os.WriteFile(filepath.Join(verifRoot, "evidence", id+".json"), b, 0o644); err != nil {
		return merged{}, err
	}
	return merged{total.Evaluations, distinct}, nil
}
