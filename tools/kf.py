#!/usr/bin/env python3
"""Maintain /verif/known_findings.json by hand (never used by a check at run time).
usage: kf.py add <id> <property> <fixed|known> <kind> <key-or-> <commit-or-> <what> [witness...]"""
import json, sys
path = '/verif/known_findings.json'
d = json.load(open(path))
if sys.argv[1] == 'add':
    _, _, fid, prop, status, kind, key, commit, what, *wit = sys.argv
    keep = [w[5:] for w in wit if w.startswith('keep=')]
    wit = [w for w in wit if not w.startswith('keep=')]
    d['findings'] = [f for f in d['findings'] if f['id'] != fid]
    e = {'id': fid, 'property': prop, 'status': status, 'kind': kind, 'what': what, 'witness': wit}
    if key != '-': e['key'] = key
    if commit != '-': e['commit'] = commit
    if keep: e['replay_keep'] = keep
    if status == 'fixed':
        e['record'] = 'fixed: property=%s %s %s' % (prop, commit, what)
    d['findings'].append(e)
    d['findings'].sort(key=lambda f: (f['property'], f['id']))
json.dump(d, open(path, 'w'), indent=1)
print(len(d['findings']), 'findings')
