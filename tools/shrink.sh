#!/bin/bash
# tools/shrink.sh <failure.json> <out.json> [kf-file]   (development aid)
set -e
export GOFLAGS=-mod=mod GOPROXY=off GOTOOLCHAIN=auto
cd /verif/harness && go test -tags verif -c -o bin/props.test ./props
cd props
out=$(mktemp -d)
VERIF_OUT=$out VERIF_REPLAY=$(readlink -f $1) VERIF_KF=${3:-/dev/null} ../bin/props.test -test.run '^TestShrinkBool$' -test.count=1 -test.timeout 600s >/dev/null 2>&1 || true
cp $out/shrunk.json $2 && rm -rf $out
