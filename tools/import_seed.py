#!/usr/bin/env python3
"""tools/import_seed.py <Cxx/A> <caught_by text> [note]  - copy a confirmed seeded change into /verif/seeded/"""
import json, os, shutil, sys
src = os.environ.get('SEED_SRC', '/tmp/wt/out') + '/' + sys.argv[1]
name = os.environ.get('SEED_NAME') or sys.argv[1].replace('/', '-')
dst = '/verif/seeded/' + name
os.makedirs(dst, exist_ok=True)
shutil.copy(src + '/patch.diff', dst + '/patch.diff')
shutil.copy(src + '/demo_test.go', dst + '/demo_test.go')
try:
    meta = json.load(open(src + '/meta.json'))
except Exception as e:
    meta = {'property': sys.argv[1][:3], 'summary': 'meta.json of the sub-agent was not valid JSON: %s' % e}
meta['origin'] = 'independent sub-agent given only the property text and a scratch worktree of /repo'
meta['confirmed_by_me'] = 'tools/try_mutant.sh: demo passes on the clean tree, existing suite passes with the change, demo fails with the change'
meta['caught_by'] = sys.argv[2]
if len(sys.argv) > 3: meta['note'] = sys.argv[3]
json.dump(meta, open(dst + '/meta.json', 'w'), indent=1)
print('imported', dst)
