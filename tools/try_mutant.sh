#!/bin/bash
# tools/try_mutant.sh <dir-with-patch.diff-and-demo_test.go> <check ids...>
# Applies a seeded change to /repo, confirms it (suite green, demo red), runs the given
# quick checks, and ALWAYS restores /repo afterwards. Development aid.
set -u
D=$(readlink -f "$1"); shift
export GOFLAGS=-mod=mod GOPROXY=off
cd /repo || exit 2
if [ -n "$(git status --porcelain)" ]; then echo "REPO NOT CLEAN"; exit 2; fi
restore() { cd /repo; rm -f zz_demo_test.go; git checkout -- . ; }
trap restore EXIT
cp "$D/demo_test.go" zz_demo_test.go
TAGS=""
grep -q "Verif" zz_demo_test.go && TAGS="-tags verif"
if go test $TAGS -count=1 -timeout 120s -run . . >/tmp/tm_demo_clean.log 2>&1; then echo "demo on clean tree: PASS (ok)"; else echo "demo on clean tree: FAIL (bad demo)"; tail -5 /tmp/tm_demo_clean.log; fi
rm -f zz_demo_test.go
if ! git apply "$D/patch.diff"; then echo "PATCH DOES NOT APPLY"; exit 2; fi
if go build ./... && go test -count=1 ./... >/tmp/tm_suite.log 2>&1; then echo "suite with mutant: PASS (ok)"; else echo "suite with mutant: FAIL (mutant rejected)"; tail -5 /tmp/tm_suite.log; fi
cp "$D/demo_test.go" zz_demo_test.go
if go test $TAGS -count=1 -timeout 120s -run . . >/tmp/tm_demo_mut.log 2>&1; then
  # some concurrency demonstrations only fail under the race detector
  if go test $TAGS -race -count=1 -timeout 300s -run . . >/tmp/tm_demo_mut.log 2>&1; then echo "demo with mutant: PASS (mutant not demonstrated)"; else echo "demo with mutant: FAIL under -race (ok)"; fi
else echo "demo with mutant: FAIL (ok)"; fi
rm -f zz_demo_test.go
cd /verif
for id in "$@"; do
  out=$(VERIF_SEED=${VERIF_SEED:-1} ./check $id quick 2>&1); rc=$?
  echo "check $id quick: exit $rc $(echo "$out" | grep -c '^VIOLATION') violation line(s); $(echo "$out" | grep -v '^VIOLATION\|^  \|^KNOWN' | tail -1 | cut -c1-160)"
  echo "$out" | grep -A1 '^VIOLATION' | grep '^  ' | head -1 | cut -c1-220
done
