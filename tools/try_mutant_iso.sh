#!/bin/bash
# tools/try_mutant_iso.sh <dir-with-patch.diff-and-demo_test.go> <check ids...>
# Like try_mutant.sh, but never touches /repo's working tree: the change is applied to a scratch
# worktree of /repo's HEAD and the checks run from a scratch copy of /verif whose harness module
# points at that worktree. Several of these (and runs against /repo itself) can go on at once.
# TIER=thorough selects the other tier. Development aid.
set -u
D=$(readlink -f "$1"); shift
export GOFLAGS=-mod=mod GOPROXY=off
S=$(mktemp -d /tmp/mt.XXXXXX)
cleanup() { cd /; git -C /repo worktree remove --force "$S/repo" 2>/dev/null; rm -rf "$S"; }
trap cleanup EXIT
git -C /repo worktree add --detach "$S/repo" HEAD >/dev/null 2>&1 || { echo "cannot create worktree"; exit 2; }
rsync -a --exclude .git --exclude 'harness/bin' --exclude replay /verif/ "$S/verif/"
sed -i "s#=> /repo#=> $S/repo#" "$S/verif/harness/go.mod"
cd "$S/repo"
cp "$D/demo_test.go" zz_demo_test.go
TAGS=""; grep -q "Verif" zz_demo_test.go && TAGS="-tags verif"
if go test $TAGS -count=1 -timeout 120s -run . . >"$S/demo_clean.log" 2>&1; then echo "demo on clean tree: PASS (ok)"; else echo "demo on clean tree: FAIL (bad demo)"; tail -5 "$S/demo_clean.log"; fi
rm -f zz_demo_test.go
if ! git apply "$D/patch.diff"; then echo "PATCH DOES NOT APPLY"; exit 2; fi
if go build ./... && go test -count=1 ./... >"$S/suite.log" 2>&1; then echo "suite with mutant: PASS (ok)"; else echo "suite with mutant: FAIL (mutant rejected)"; tail -5 "$S/suite.log"; fi
cp "$D/demo_test.go" zz_demo_test.go
if go test $TAGS -count=1 -timeout 120s -run . . >"$S/demo_mut.log" 2>&1; then
  if go test $TAGS -race -count=1 -timeout 300s -run . . >"$S/demo_mut.log" 2>&1; then echo "demo with mutant: PASS (mutant not demonstrated)"; else echo "demo with mutant: FAIL under -race (ok)"; fi
else echo "demo with mutant: FAIL (ok)"; fi
rm -f zz_demo_test.go
cd "$S/verif"
for id in "$@"; do
  out=$(VERIF_SEED=${VERIF_SEED:-1} ./check $id ${TIER:-quick} 2>&1); rc=$?
  echo "check $id ${TIER:-quick}: exit $rc $(echo "$out" | grep -c '^VIOLATION') violation line(s); $(echo "$out" | grep -v '^VIOLATION\|^  \|^KNOWN' | tail -1 | cut -c1-160)"
  echo "$out" | grep -A1 '^VIOLATION' | grep '^  ' | head -1 | cut -c1-260
done
