#!/usr/bin/env python3
import json, sys
def conv(x):
    if isinstance(x, dict):
        if set(x.keys()) == {'X','Y'}: return (x['X'], x['Y'])
        return {k: conv(v) for k, v in x.items()}
    if isinstance(x, list): return [conv(v) for v in x]
    return x
for f in sys.argv[1:]:
    d = json.load(open(f))
    print('==', f); print(d.get('msg','')[:1200])
    for k, v in conv(d['case']).items(): print('  ', k, '=', v)
