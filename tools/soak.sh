#!/bin/bash
# tools/soak.sh <tier> <seed>...   run every registered check at the given seeds; print one line per run
tier=$1; shift
cd "$(dirname "$0")/.."
for s in "$@"; do
  for id in C01 C02 C03 C04 C05 C06 C07 C08 C09 C10 C11 C12 C13 C14 C15 C16 C17 C18 C19; do
    out=$(VERIF_SEED=$s ./check $id $tier 2>&1); rc=$?
    echo "seed=$s $id exit=$rc $(echo "$out" | grep -c '^VIOLATION') viol; $(echo "$out" | grep -v '^VIOLATION\|^  \|^KNOWN' | tail -1 | cut -c1-140)"
    echo "$out" | grep '^VIOLATION' | head -3
  done
done
