#!/usr/bin/env python3
"""Regenerate /verif/MANIFEST.json from the table below (edit the table, run the script)."""
import json, subprocess

GEN = 'Generated-input search (pgregory.net/rapid, sharded over processes, seeds derived from VERIF_SEED) judged by an explicit oracle; failures are shrunk and saved as JSON replay files that re-run without rapid. Exploration: it shows the property on the cases explored and finds violations, it never establishes absence.'
KIT = 'Trusted: the oracle kit (exact integer cross products / winding numbers, math/big areas, float distances with a guard band), unit-tested against math/big in setup_cmd.'
CLAIMED = {
 # id: (technique, level text, level note, design ref)
 'C01': ('property-based testing (rapid): generated closed path sets (generic, lattice, dense, boxes, Y-level and octilinear-triangle families) x 16 (clip type, fill rule) x 4 entry points against an exact winding-number oracle at probe points outside the 2-unit band',
         GEN + ' Every case is judged against the meaning of the operation (exact winding number of integer probe points placed in the faces of the arrangement), not against golden vertex lists.',
         KIT + ' Faces thinner than ~3 units are not probed (inside the band). Listed finding F30 (input class kit.NearDegenerate) is excused and counted; F29 (discarded lobes) was repaired and is not excused any more.', 'DESIGN.md section 7 C01'),
 'C02': ('property-based testing (rapid): validity predicate over generated boolean results (vertex rules, winding in {0,1} off the solution edges, re-union and option metamorphic relations)',
         GEN, KIT + ' preserveCollinear / reverseSolution are set through the verif hook. Listed finding F30 excused by input class (for the re-union step the solution itself counts as input); listed finding F50 (one exact input, witness replayed first) is not root-caused and silences nothing but itself.', 'DESIGN.md section 7 C02'),
 'C03': ('property-based testing (rapid) over a grammar of every exported operation with hostile arguments and with the dense polygon families of the boolean checks; in-process watchdog for calls that do not return',
         GEN + ' Every call is judged for: no panic (except the documented precision-range panic), Execute* returns true, returns within 10 s.',
         'The 10 s deadline uses the wall clock (hang detection only). Resource-shaped preconditions are listed in the evidence assumptions.', 'DESIGN.md section 7 C03'),
 'C04': ('property-based testing (rapid): PolyTree vs flat Paths multiset equality plus nesting oracle over generated inputs (C01 families, nested boxes, tips-and-bars: tips exactly on the scanline of a horizontal edge of a neighbouring polygon) (interior probe of every node -> innermost containing polygon must be the parent; IsHole <=> orientation <=> level parity), 64-bit and D variants',
         GEN, KIT + ' Listed findings excused: F30 (near-degenerate input), F32 (node touches the polygon it is nested under/beside), F38 (input has coincident edges).', 'DESIGN.md section 7 C04'),
 'C05': ('property-based testing (rapid): generated simple polygon sets with holes (stars, combs, smooth 150-420 vertex ellipses; verified exactly in the generator; extents 30 .. 2^37) x delta x join types x offset-object options; distance/winding oracle at ring probes along normals and around vertices',
         GEN, KIT + ' tol = 2 + effective arc tolerance; listed findings F39 (Bevel near-straight mitre), F40 (compound rounding up to 2.75 units) are excused by re-judging with the relaxed constant.', 'DESIGN.md section 7 C05'),
 'C06': ('property-based testing (rapid): generated rectangles (extent 20 .. 2^40) x closed paths biased to corners/edges of the rectangle, exact winding-number oracle inside/outside the rectangle',
         GEN, KIT, 'DESIGN.md section 7 C06'),
 'C07': ('property-based testing (rapid): differential test of every floating-point entry point (functions, engine object incl. the scale-function variants, tree form with open subjects, inflate with miter limit and arc tolerance) against its 64-bit counterpart on the quantised input (17 precisions, fractional inputs without ties; two tie-mode rectangle operations in which bounds and vertices are exact ties and the reference is the path quantiser of the library), plus precision-range panics',
         GEN, 'The 64-bit counterparts are trusted here (they are judged by C01..C11); 4 ulp tolerance for the division by 10^p.', 'DESIGN.md section 7 C07'),
 'C08': ('property-based testing (rapid): Minkowski sum/difference (magnitudes up to 2^40, up to ~3000 parallelograms) against the union of parallelograms built from the definition (exact winding), sum(A,B) vs sum(B,A)',
         GEN, KIT + ' F30 is excused through the class predicate evaluated on the parallelograms handed to the internal union.', 'DESIGN.md section 7 C08'),
 'C09': ('property-based testing (rapid): open subject polylines x closed clips; coverage oracle at sample points of the subject segments (exact winding of the clip region), sub-polyline test, closed solution with vs. without open paths, tree form (64-bit and D) including its open solution, open subjects through AddPaths and through AddPath',
         GEN, KIT + ' "Alter" is judged at region level outside the 2-unit band (vertex lists may differ within the band, counted in the evidence). F30 excused by input class.', 'DESIGN.md section 7 C09'),
 'C10': ('property-based testing (rapid): open polylines (extent 40 .. 2^38) x end types x join types x delta; distance oracle at ring probes (segments, caps, joins), Butt rule from segment rectangles',
         GEN, KIT + ' Listed findings: F19 (no end caps; probes within k*delta of the first/last segment excluded), F41, F43, F39, F30 via the offset-raw hook.', 'DESIGN.md section 7 C10'),
 'C11': ('property-based testing (rapid): generated rectangles (extent 20 .. 2^40) x open polylines; sub-polyline / order / coverage oracle',
         GEN, KIT + ' Coverage is judged at sample points farther than 5 units from the rectangle boundary.', 'DESIGN.md section 7 C11'),
 'C12': ('property-based testing (rapid): generated histories (AddPaths / Execute / ExecuteOC / ExecutePolyTree / Execute64 with any clip type incl. NoClip and out-of-range values, dirty solution arguments and dirty tree arguments) on Clipper64, ClipperD, ClipperOffset, compared after every execute with a fresh engine given the same AddPaths calls; caller-owned slices compared with deep copies (also for every call of the C03 grammar)',
         GEN, 'Deep equality is demanded unless paths were added after the first execute (then an already sorted minima list is sorted again by an unstable sort, and results are compared as regions).', 'DESIGN.md section 7 C12'),
 'C13': ('property-based testing (rapid): metamorphic (translate up to 2^52 / scale up to 2^61) plus absolute 128-bit winding oracle for boolean ops; rect clip, inflate, Area64, PointInPolygon, SimplifyPath64 (closed and open) under the same transforms',
         GEN, KIT + ' Listed findings: F46 (offsetting beyond 2^50), F30. F27 (int64 overflow beyond extent 2^31) was repaired: magnitudes up to 2^61 are judged strictly.', 'DESIGN.md section 7 C13'),
 'C14': ('property-based testing (rapid): hostile operand pool vs math/big oracles for Area64, IsPositive64, PointInPolygon, GetBounds64, isCollinear, productsAreEqual, CrossProduct',
         GEN, KIT + ' Listed finding F5 (triSign(1)==0) is excused for operands equal to +1 only.', 'DESIGN.md section 7 C14'),
 'C15': ('property-based testing (rapid): generated paths with collinear runs/spikes/duplicates; validity predicate (sub-sequence, exact area, winding / ray-crossing invariance, no collinear triple left, idempotence)',
         GEN, KIT + ' Listed finding F5 is excused only for paths in which two vertices differ by exactly 1 in a coordinate.', 'DESIGN.md section 7 C15'),
 'C16': ('property-based testing (rapid): generated zig-zag / collinear paths x epsilon x 4 API variants; exact rational distance oracle plus translation / power-of-two scaling metamorphic relations',
         GEN, KIT, 'DESIGN.md section 7 C16'),
 'C17': ('property-based testing (rapid): metamorphic relations over spelling transforms (permute, rotate, repeat, reverse, swap, 8 lattice symmetries) and repeated identical calls',
         GEN, KIT + ' The library is compared with itself; listed finding F30 excused by input class.', 'DESIGN.md section 7 C17'),
 'C18': ('property-based testing (rapid) under the Go race detector: generated batches of API calls on shared read-only inputs (path slices and one shared delta-callback variable), 2-8 goroutines first (first round released together, so that lazily initialised state is first touched concurrently), sequential results afterwards',
         GEN + ' A race report (GORACE=halt_on_error=1) or a result that differs from the sequential baseline is a violation.',
         'The schedule is not controlled; the race detector flags unordered conflicting accesses that actually execute. Cases killed by the detector are reported through a journal file and are not shrunk.', 'DESIGN.md section 7 C18'),
 'C19': ('property-based testing (rapid): metamorphic set identities between the four clip types (exact areas, point membership), including inputs with thousands of vertices in the thorough tier',
         GEN, KIT + ' Area identities are allowed 2 x total input edge length (the statement\'s bound); operations also run through the wrappers, a path-by-path engine and one reused engine; empty operands included. F30 excused by input class.', 'DESIGN.md section 7 C19'),
}
NOT_YET = {}

props = [json.loads(l) for l in open('/verif/properties.jsonl')]
checks, na = [], []
for p in props:
    i = p['id']
    if i in CLAIMED:
        tech, text, note, ref = CLAIMED[i]
        checks.append({
            'property_id': i,
            'quick_cmd': './check %s quick' % i,
            'thorough_cmd': './check %s thorough' % i,
            'evidence_file': '/verif/evidence/%s.json' % i,
            'replay_cmd_template': './check %s --replay {path}' % i,
            'engine': 'rapid-harness',
            'level_claimed': {'category': 'exploration', 'text': text, 'design_ref': ref},
            'level_note': note,
            'technique': tech,
        })
    else:
        na.append({'property_id': i, 'reason': NOT_YET.get(i, 'check not built yet in this session (work in progress; the technique applies, see DESIGN.md section 7)')})

hooks_commits = subprocess.run(['git', '-C', '/repo', 'log', '--format=%h %s', '--grep=^verif hooks'], capture_output=True, text=True).stdout.strip().splitlines()
m = {
 'version': 1,
 'setup_cmd': 'cd /verif/harness && GOFLAGS=-mod=mod GOPROXY=off GOTOOLCHAIN=auto go build -o bin/vcheck ./cmd/vcheck && GOFLAGS=-mod=mod GOPROXY=off GOTOOLCHAIN=auto go test -count=1 ./kit/ && GOFLAGS=-mod=mod GOPROXY=off GOTOOLCHAIN=auto go test -tags verif -c -o bin/props.test ./props',
 'hooks': {
  'guard': 'verif (Go build tag)',
  'enable': 'go test -tags verif (the driver builds /verif/harness/props against /repo through a replace directive)',
  'baseline_off_cmd': 'cd /repo && GOFLAGS=-mod=mod GOPROXY=off go test -vet=off -count=1 ./...',
  'source_commits': [c.split()[0] for c in hooks_commits],
  'add_only': True,
 },
 'engines': [{'name': 'rapid-harness', 'path': '/verif/harness', 'serves_properties': [c['property_id'] for c in checks],
              'kind_free_text': 'Go module: oracle kit (exact integer geometry), rapid generators + judges per property, sharded driver (cmd/vcheck) that writes evidence and replay files'}],
 'checks': checks,
 'not_applicable': na,
 'notes': 'All checks: ./check <ID> [quick|thorough] [--replay FILE]; VERIF_SEED selects the rapid seeds of all shards. Genuine defects found are listed in /verif/known_findings.json (fixed: with /repo commit; known: with identification).',
}
json.dump(m, open('/verif/MANIFEST.json', 'w'), indent=1)
print('claimed', len(checks), 'not_applicable', len(na))
