#!/usr/bin/env python3
"""Regenerate /verif/MANIFEST.json from the table below (edit the table, run the script)."""
import json, subprocess

CLAIMED = {
 # id: (technique, level text, level note, design ref)
 'C01': ('property-based testing (rapid): generated closed path sets x 16 (clip type, fill rule) x 3 entry points against an exact winding-number oracle at probe points outside the 2-unit band; shrunk failures saved as JSON replay',
         'Generated-input search: every case is judged against the meaning of the operation (exact winding number of integer probe points placed in the faces of the arrangement), not against golden vertex lists; exploration, never absence.',
         'Trusted: the oracle kit (exact integer cross products / winding, float distances with a guard). Faces thinner than ~3 units are not probed (inside the band).', 'DESIGN.md section 7 C01'),
}
NOT_YET = {}

props = [json.loads(l) for l in open('/verif/properties.jsonl')]
checks, na = [], []
for p in props:
    i = p['id']
    if i in CLAIMED:
        tech, text, note, ref = CLAIMED[i]
        checks.append({
            'property_id': i,
            'quick_cmd': './check %s quick' % i,
            'thorough_cmd': './check %s thorough' % i,
            'evidence_file': '/verif/evidence/%s.json' % i,
            'replay_cmd_template': './check %s --replay {path}' % i,
            'engine': 'rapid-harness',
            'level_claimed': {'category': 'exploration', 'text': text, 'design_ref': ref},
            'level_note': note,
            'technique': tech,
        })
    else:
        na.append({'property_id': i, 'reason': NOT_YET.get(i, 'check not built yet in this session (work in progress; the technique applies, see DESIGN.md section 7)')})

hooks_commits = subprocess.run(['git', '-C', '/repo', 'log', '--format=%h %s', '--grep=^verif hooks'], capture_output=True, text=True).stdout.strip().splitlines()
m = {
 'version': 1,
 'setup_cmd': 'cd /verif/harness && GOFLAGS=-mod=mod GOPROXY=off GOTOOLCHAIN=auto go build -o bin/vcheck ./cmd/vcheck && GOFLAGS=-mod=mod GOPROXY=off GOTOOLCHAIN=auto go test -count=1 ./kit/ && GOFLAGS=-mod=mod GOPROXY=off GOTOOLCHAIN=auto go test -tags verif -c -o bin/props.test ./props',
 'hooks': {
  'guard': 'verif (Go build tag)',
  'enable': 'go test -tags verif (the driver builds /verif/harness/props against /repo through a replace directive)',
  'baseline_off_cmd': 'cd /repo && GOFLAGS=-mod=mod GOPROXY=off go test -vet=off -count=1 ./...',
  'source_commits': [c.split()[0] for c in hooks_commits],
  'add_only': True,
 },
 'engines': [{'name': 'rapid-harness', 'path': '/verif/harness', 'serves_properties': [c['property_id'] for c in checks],
              'kind_free_text': 'Go module: oracle kit (exact integer geometry), rapid generators + judges per property, sharded driver (cmd/vcheck) that writes evidence and replay files'}],
 'checks': checks,
 'not_applicable': na,
 'notes': 'All checks: ./check <ID> [quick|thorough] [--replay FILE]; VERIF_SEED selects the rapid seeds of all shards. Genuine defects found are listed in /verif/known_findings.json (fixed: with /repo commit; known: with identification).',
}
json.dump(m, open('/verif/MANIFEST.json', 'w'), indent=1)
print('claimed', len(checks), 'not_applicable', len(na))
