#!/bin/bash
# tools/reseed_all.sh [dir...]  re-confirms every seeded change against the current /repo and the
# current checks: patch applies, suite green, demonstration red, and the quick tier of the
# check(s) named in meta.json "caught_by" reports a violation. One line per change.
cd "$(dirname "$0")/.."
dirs=("$@"); [ ${#dirs[@]} -eq 0 ] && dirs=(seeded/C??-[A-E])
for d in "${dirs[@]}"; do
  ids=$(python3 -c "import json,re,sys;m=json.load(open('$d/meta.json'));print(' '.join(dict.fromkeys(re.findall(r'C\d\d', m.get('caught_by','')))))")
  out=$(${TRY:-tools/try_mutant.sh} "$d" $ids 2>&1)   # TRY=tools/try_mutant_iso.sh: scratch copies, /repo untouched
  ok=$(echo "$out" | grep -c "(ok)")
  res=$(echo "$out" | grep "^check" | sed 's/check \(C[0-9]*\) quick: exit \([0-9]\) \([0-9]*\) violation.*/\1:exit\2:\3viol/' | tr '\n' ' ')
  echo "$(basename $d) confirm=$ok/3 $res"
done
